package log

import "time"

//verif:witness H_C13_sequential end
//verif:bound C13 quick one writer, 1..3 writes (plus Start), every clock reading an arbitrary non-decreasing instant (mathematical integers, 2^30 <= t < 2^40 s), interval 1 s / 2 s / 10 min; optional Stop/Start cycle before the writes
//verif:bound C13 thorough one writer, 1..4 writes, otherwise as quick
//verif:assume C13 time.Format output is an opaque 14-digit text with the axiom: equal seconds <=> equal text
//verif:assume C13 file-system model: OpenFile/Write/Close of os.File with O_APPEND/O_CREATE/O_TRUNC interpreted; one write(2) per Write call, whole
//verif:assume C13 concurrent writers racing with a boundary are explored by H_C13_concurrent under the stall rule of DESIGN.md; a writer suspended inside Write across a whole interval is outside the claim
//verif:engine-only H_C13_sequential

type vRollExpect struct {
	created int    // index of the clock reading at which the file was created
	content []byte // expected content
}

var vIntervals = [3]time.Duration{time.Second, 2 * time.Second, 10 * time.Minute}

// vRollingOracle: expected files for sequential writes (from the statement).
type vRollModel struct {
	interval int64
	curr     int64 // start of the current interval
	files    []vRollExpect
}

func (m *vRollModel) trunc(t int64) int64 { return t - t%m.interval }

func (m *vRollModel) open(reading int, t int64) {
	m.files = append(m.files, vRollExpect{created: reading})
	m.curr = m.trunc(t)
}

func (m *vRollModel) write(reading int, t int64, p []byte) {
	if m.trunc(t) > m.curr {
		m.open(reading, t)
	}
	f := &m.files[len(m.files)-1]
	f.content = append(f.content, p...)
}

func vCheckRollFiles(dir string, app *RollingFileAppender, m *vRollModel) {
	names := vFSNames(dir)
	// files created in the same second share a name: merge the expectations
	type merged struct {
		name    string
		content []byte
	}
	var exp []merged
	for _, f := range m.files {
		name := app.FileName + "." + app.Rotation.Format(time.Unix(vClockReading(f.created), 0))
		found := false
		for i := range exp {
			if exp[i].name == name {
				exp[i].content = append(exp[i].content, f.content...)
				found = true
			}
		}
		if !found {
			exp = append(exp, merged{name, f.content})
		}
	}
	vAssert(len(names) == len(exp), "exactly-the-expected-files-exist")
	for _, e := range exp {
		got, ok := vFSRead(dir, e.name)
		vAssert(ok, "file-named-after-the-reading-at-which-it-was-created")
		if ok {
			vAssert(vBytesEqual(got, e.content), "each-write-whole-exactly-once-in-the-right-file")
		}
	}
}

func H_C13_sequential() {
	vOpt("loop", 200)
	vClockMode(1)
	vClockWindow(100000) // about 28 h: below the retention age of 168 h, above every interval
	root := vFSRoot()
	defer vFSCleanup()
	dir := root + "/logs"
	vFSMkdir(dir)
	iv := vIntervals[vChoose("interval", 3)]
	app := &RollingFileAppender{FileDir: dir, FileName: "r", Rotation: TimeRotation{Interval: iv}, MaxAge: 168}
	m := &vRollModel{interval: int64(iv / time.Second)}
	maxW := 3
	if vTier() > 0 {
		maxW = 4
	}
	r := vClockCount()
	if err := app.Start(); err != nil {
		panic(err)
	}
	m.open(r, vClockReading(r))
	next := byte('A')
	if vChoose("restart", 2) == 1 {
		// write, stop and start again: an existing file of the same name must be appended to
		r = vClockCount()
		app.Write([]byte{next})
		m.write(r, vClockReading(r), []byte{next})
		next++
		app.Stop()
		vAssert(vFSOpenFDs() == 0, "no-descriptor-left-open-after-stop")
		r = vClockCount()
		if err := app.Start(); err != nil {
			panic(err)
		}
		m.open(r, vClockReading(r))
	}
	k := 1 + vChoose("writes", maxW)
	for i := 0; i < k; i++ {
		p := []byte{next, '\n'}
		next++
		r = vClockCount()
		app.Write(p)
		m.write(r, vClockReading(r), p)
		vAssert(vFSOpenFDs() <= 2, "at-most-two-descriptors-while-running")
	}
	app.Stop()
	vDrain() // the retention goroutines started by rotations run to completion (nothing may expire here)
	vAssert(vFSOpenFDs() == 0, "no-descriptor-left-open-after-stop")
	vCheckRollFiles(dir, app, m)
	vReach("end")
}

//verif:witness H_C13_concurrent end
//verif:bound C13 quick 2 concurrent writers x 1 write each, every clock reading arbitrary non-decreasing, interval 1 s, pre-emption at every visible operation (atomics, file write/close, channel, thread start/exit) with at most 2 pre-emptive switches, under the stall rule
//verif:bound C13 thorough 2 writers (2 writes and 1 write), 2 pre-emptive switches at any visible operation, under the stall rule; the same exploration without the stall rule is reported as 'unconfirmed_outside_claim'
//verif:assume C13 in the concurrent harness all clock readings lie within 1000 s (retention, C14, is not the subject and must not expire the files under test)
//verif:assume C13 stall rule: the clock does not move into a later interval while another writer is suspended inside RollingFileAppender.Write (a writer stalled across a whole interval between two adjacent statements can lose its write to an already closed file; that schedule cannot be enforced natively and is outside the claim)
//verif:engine-only H_C13_concurrent
//verif:engine-only H_C13_concurrent_nostall
//verif:unconfirmed H_C13_concurrent_nostall

// asym = 1: the second writer issues one write fewer than the first.
func vRollConcurrent(stall bool, perWriter, preempt, asym int) {
	vOpt("loop", 400)
	vOpt("schedall", 1)
	vOpt("preempt", preempt)
	vClockMode(1)
	vClockWindow(1000) // far below the retention age, so the cleanup goroutine removes nothing
	if stall {
		vClockStall(1)
	}
	root := vFSRoot()
	defer vFSCleanup()
	dir := root + "/logs"
	vFSMkdir(dir)
	app := &RollingFileAppender{FileDir: dir, FileName: "r", Rotation: TimeRotation{Interval: time.Second}, MaxAge: 168}
	if err := app.Start(); err != nil {
		panic(err)
	}
	done := make(chan int, 2)
	payloads := [][]byte{{'A', '\n'}, {'B', '\n'}, {'C', '\n'}, {'D', '\n'}}
	for w := 0; w < 2; w++ {
		go func(w int) {
			for i := 0; i < perWriter-w*asym; i++ {
				app.Write(payloads[w*2+i])
			}
			done <- 1
		}(w)
	}
	<-done
	<-done
	vAssert(vFSOpenFDs() <= 2, "at-most-two-descriptors-when-no-write-is-in-progress")
	app.Stop()
	// every payload whole, exactly once, in exactly one well-named file
	var all []byte
	for _, n := range vFSNames(dir) {
		vAssert(len(n) == 16 && n[0] == 'r' && n[1] == '.', "file-name-is-name-dot-timestamp")
		c, _ := vFSRead(dir, n)
		vAssert(len(c)%2 == 0, "lines-are-whole")
		all = append(all, c...)
	}
	for w := 0; w < 2; w++ {
		for i := 0; i < perWriter-w*asym; i++ {
			p := payloads[w*2+i]
			count := 0
			for k := 0; k+1 < len(all); k += 2 {
				if all[k] == p[0] && all[k+1] == p[1] {
					count++
				}
			}
			vAssert(count == 1, "every-write-lands-exactly-once")
		}
	}
	vAssert(vFSOpenFDs() == 0, "no-descriptor-left-open-after-stop")
	vReach("end")
}

func H_C13_concurrent() {
	if vTier() > 0 {
		vRollConcurrent(true, 2, 2, 1)
	} else {
		vRollConcurrent(true, 1, 2, 0)
	}
}

// H_C13_concurrent_nostall: the same exploration without the stall rule (thorough tier only);
// what it finds is recorded as unconfirmed, outside the claim.
func H_C13_concurrent_nostall() {
	if vTier() == 0 {
		vReach("end")
		return
	}
	vRollConcurrent(false, 2, 2, 1)
}

//verif:witness H_C13_concrete end
//verif:bound C13 all concrete clock: interval 1 h, retention 1 h or 168 h, 2..4 writes separated by 0 / 1700 / 3500 / 7300 s, the retention goroutine runs to completion after every write; file names are real timestamps; every write whose file has not legitimately expired (modification time older than the retention age at a cleanup) must be present exactly once
//verif:engine-only H_C13_concrete

// H_C13_concrete: rotation + retention with real timestamps: nothing younger than the retention age disappears.
func H_C13_concrete() {
	vOpt("loop", 400)
	vOpt("preempt", 1)
	root := vFSRoot()
	defer vFSCleanup()
	dir := root + "/logs"
	vFSMkdir(dir)
	maxAge := [2]int32{1, 168}[vChoose("maxAge", 2)]
	app := &RollingFileAppender{FileDir: dir, FileName: "r", Rotation: TimeRotation{Interval: time.Hour}, MaxAge: maxAge}
	if err := app.Start(); err != nil {
		panic(err)
	}
	type fileModel struct {
		mtime   int64
		content []byte
		alive   bool
	}
	files := []*fileModel{{mtime: vClockUnix(), alive: true}}
	curr := vClockUnix() - vClockUnix()%3600
	n := 2 + vChoose("writes", 3)
	for i := 0; i < n; i++ {
		vClockAdvance([4]int{0, 1700, 3500, 7300}[vChoose("gap", 4)]) // never exactly the retention age
		p := []byte{byte('A' + i), '\n'}
		app.Write(p)
		now := vClockUnix()
		rotated := now-now%3600 > curr
		if rotated {
			curr = now - now%3600
			files = append(files, &fileModel{alive: true})
		}
		f := files[len(files)-1]
		f.content = append(f.content, p...)
		f.mtime = now
		vDrain() // the cleanup started by a rotation runs now
		if rotated {
			for _, g := range files {
				if g.alive && g.mtime < vClockUnix()-int64(maxAge)*3600 {
					g.alive = false // legitimately expired
				}
			}
		}
	}
	app.Stop()
	var all []byte
	for _, nm := range vFSNames(dir) {
		c, _ := vFSRead(dir, nm)
		all = append(all, c...)
	}
	var want []byte
	for _, g := range files {
		if g.alive {
			want = append(want, g.content...)
		}
	}
	vAssert(len(all) == len(want), "exactly-the-unexpired-writes-are-in-the-files")
	for i := 0; i+1 < len(want); i += 2 {
		vAssert(vContains(all, string(want[i:i+2])), "unexpired-write-is-present")
	}
	vReach("end")
}
