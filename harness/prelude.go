package log

// Harness prelude. In the symbolic engine every v* function below is intercepted (its body
// is ignored); compiled natively the bodies read the values of one replay case, so that a
// solver model becomes an ordinary run of the same harness against the real build.

import (
	"fmt"
	"runtime"
	"strconv"
)

type vInput struct {
	Name string `json:"name"`
	Kind string `json:"kind"`
	N    int    `json:"n"`
	Val  any    `json:"val"`
}

type vChoice struct {
	Name string `json:"name"`
	Val  int    `json:"val"`
}

type vCase struct {
	Harness string    `json:"harness"`
	Inputs  []vInput  `json:"inputs"`
	Choices []vChoice `json:"choices"`
	Tier    int       `json:"tier"`
	Known   []string  `json:"known_open"`
}

type vObserved struct {
	Label string `json:"label"`
	Val   string `json:"val"`
}

var vR struct {
	c        *vCase
	seq      map[string]int
	choiceAt int
	reached  map[string]bool
	observed []vObserved
}

type vAssertFail struct{ label string }
type vAssumeFail struct{}

func vLoad(c *vCase) {
	vR.c = c
	vR.seq = map[string]int{}
	vR.choiceAt = 0
	vR.reached = map[string]bool{}
	vR.observed = nil
}

func vSeqName(name string) string {
	n := vR.seq[name]
	vR.seq[name] = n + 1
	if n == 0 {
		return name
	}
	return name + "#" + strconv.Itoa(n)
}

func vFind(name string) *vInput {
	name = vSeqName(name)
	for i := range vR.c.Inputs {
		if vR.c.Inputs[i].Name == name {
			return &vR.c.Inputs[i]
		}
	}
	// an input the path never constrained: any value will do
	return &vInput{Name: name, Val: nil}
}

func vNum(name string) uint64 {
	in := vFind(name)
	switch x := in.Val.(type) {
	case float64:
		return uint64(int64(x))
	case string:
		u, _ := strconv.ParseUint(x, 10, 64)
		return u
	case bool:
		if x {
			return 1
		}
	}
	return 0
}

func vInt(name string) int       { return int(vNum(name)) }
func vInt64(name string) int64   { return int64(vNum(name)) }
func vInt32(name string) int32   { return int32(vNum(name)) }
func vInt16(name string) int16   { return int16(vNum(name)) }
func vInt8(name string) int8     { return int8(vNum(name)) }
func vUint64(name string) uint64 { return vNum(name) }
func vUint(name string) uint     { return uint(vNum(name)) }
func vUint32(name string) uint32 { return uint32(vNum(name)) }
func vUint16(name string) uint16 { return uint16(vNum(name)) }
func vUint8(name string) uint8   { return uint8(vNum(name)) }
func vByte(name string) byte     { return byte(vNum(name)) }
func vBool(name string) bool     { return vNum(name) != 0 }

// vFloat64 returns a float64 with an arbitrary bit pattern.
func vFloat64(name string) float64 { return vF64frombits(vNum(name)) }
func vFloat32(name string) float32 { return vF32frombits(uint32(vNum(name))) }

// vIntLIA: arbitrary integer in [lo,hi], encoded as a mathematical integer in the solver.
func vIntLIA(name string, lo, hi int64) int64 { return int64(vNum(name)) }

func vBytes(name string, n int) []byte {
	in := vFind(name)
	out := make([]byte, n)
	if arr, ok := in.Val.([]any); ok {
		for i := 0; i < n && i < len(arr); i++ {
			if f, ok := arr[i].(float64); ok {
				out[i] = byte(int(f))
			}
		}
	}
	return out
}

func vString(name string, n int) string { return string(vBytes(name, n)) }

// vChoose: path-split choice in [0,k).
func vChoose(name string, k int) int {
	for vR.choiceAt < len(vR.c.Choices) {
		ch := vR.c.Choices[vR.choiceAt]
		vR.choiceAt++
		if ch.Name == name {
			return ch.Val
		}
	}
	return 0
}

func vAssume(cond bool) {
	if !cond {
		panic(vAssumeFail{})
	}
}

func vAssert(cond bool, label string) {
	if !cond {
		panic(vAssertFail{label})
	}
}

func vReach(label string) { vR.reached[label] = true }

// vKnown marks the input region of a recorded finding; true iff inside the region and the finding is open.
func vKnown(id string, cond bool) bool {
	if !cond {
		return false
	}
	for _, k := range vR.c.Known {
		if k == id {
			return true
		}
	}
	return false
}

func vYield()                   { runtime.Gosched() }
func vTier() int                { return vR.c.Tier }
func vSymbolic() bool           { return false }
func vOpt(name string, val int) {}
func vAnd(a, b bool) bool       { return a && b }
func vOr(a, b bool) bool        { return a || b }
func vNot(a bool) bool          { return !a }
func vImplies(a, b bool) bool   { return !a || b }
func vTrace(msg string)         {}
func vConcretize(x int) int     { return x }
func vIte(c bool, a, b int) int {
	if c {
		return a
	}
	return b
}

func vObserve(label string, v any) {
	vR.observed = append(vR.observed, vObserved{label, vDescribe(v)})
}

func vDescribe(v any) string {
	switch x := v.(type) {
	case string:
		return strconv.Quote(x)
	case []byte:
		return strconv.Quote(string(x))
	case bool:
		return strconv.FormatBool(x)
	case int:
		return strconv.FormatInt(int64(x), 10)
	case int64:
		return strconv.FormatInt(x, 10)
	case int32:
		return strconv.FormatInt(int64(x), 10)
	case uint64:
		return strconv.FormatUint(x, 10)
	case uint8:
		return strconv.FormatUint(uint64(x), 10)
	case nil:
		return "nil"
	}
	return fmt.Sprint(v)
}

// vSingleProc: natively run on one P so that yields hand over deterministically; no-op in the engine.
func vSingleProc() func() {
	old := runtime.GOMAXPROCS(1)
	return func() { runtime.GOMAXPROCS(old) }
}

// vNoNative marks the current path as depending on an engine-only model (no-op natively).
func vNoNative() {}
