package log

//verif:witness H_C04_conserve end
//verif:bound C04 quick async logger with buffer capacity 1..2 (capacity override on make(chan, BufferSize); the code never reads the capacity), 1..2 producers (first 1..2 items, second 1 item; thorough 1..2 each) (event with arbitrary int32 level against an arbitrary int32 logger range, raw write, or empty raw write), with or without a logger-level layout, the appender reference carrying the logger's own range, 3 policies, fast or slow (yielding) appender; pre-emption at yields and blocking operations only
//verif:bound C04 thorough capacity 1..2, 2 producers x up to 2 items, pre-emption at every visible operation (channel, atomic, pool, yield) with at most 1 pre-emptive switch per schedule (switches forced by blocking are free)
//verif:assume C04 producers are joined before Stop (the statement's premise 'once Stop has returned' read with C05's 'no log call concurrently in progress')
//verif:assume C04 threads switch only at visible operations (channel ops, sync/atomic, sync.Pool, yields, thread exit); between them a thread runs atomically (sound for data-race-free code)
//verif:engine-only H_C04_conserve

type vItem struct {
	kind    int // 0 event, 2 raw write
	id      int
	level   int32 // event: arbitrary level code
	enabled bool  // whether the logger's range contains the level
}

// vAsyncRun starts an async logger, lets producers submit, stops it and returns observations.
func vAsyncRun(capacity, policy int, slow bool, plan [][]vItem) (*AsyncLogger, *vRecAppender) {
	vOpt("chancap", capacity)
	app := &vRecAppender{slow: slow}
	withLayout := vChoose("loggerLayout", 2) == 1
	l := &AsyncLogger{LoggerBase: LoggerBase{Name: "a", Level: LevelRange{MinLevel: Level{code: vLmin, name: "LO"}, MaxLevel: Level{code: vLmax, name: "HI"}}}, BufferSize: 100, BufferFullPolicy: BufferFullPolicy(policy)}
	// the appender reference has the logger's own range: whatever the logger accepts must get through
	l.AppenderRefs.AppenderRefs = []*AppenderRef{{Appender: app, Level: LevelRange{MinLevel: Level{code: vLmin, name: "LO"}, MaxLevel: Level{code: vLmax, name: "HI"}}}}
	if withLayout {
		l.Layout = &vIDLayout{} // formatted route: the line carries the event's identity
	}
	if err := l.Start(); err != nil {
		panic(err)
	}
	done := make(chan int, len(plan))
	for p := range plan {
		go func(items []vItem) {
			for _, it := range items {
				vSubmit(l, it)
			}
			done <- 1
		}(plan[p])
	}
	for range plan {
		<-done
	}
	l.Stop()
	return l, app
}

// vIDLayout renders an event as the single byte of its identity (Line), so that the formatted
// route can be traced like a raw write.
type vIDLayout struct{}

func (*vIDLayout) ToBytes(e *Event) []byte { return []byte{byte(e.Line)} }

// logger range used by vAsyncRun: arbitrary int32 bounds chosen by vPlan
var vLmin, vLmax int32

func vSubmit(l Logger, it vItem) {
	switch it.kind {
	case 0:
		e := GetEvent()
		e.Level, e.Line, e.Tag = Level{code: it.level, name: "EV"}, it.id, "_t_x"
		l.Append(e)
	case 3:
		l.Write(nil) // an empty raw write is still a write
	default:
		l.Write([]byte{byte(it.id)})
	}
}

func vPlan(maxProducers, maxItems int) (plan [][]vItem, submitted int) {
	vLmin, vLmax = vInt32("lmin"), vInt32("lmax")
	np := 1 + vChoose("producers", maxProducers)
	id := 1
	for p := 0; p < np; p++ {
		n := 1
		if p == 0 || vTier() > 0 {
			n = 1 + vChoose("items", maxItems)
		}
		var items []vItem
		for i := 0; i < n; i++ {
			it := vItem{kind: [3]int{0, 2, 3}[vChoose("kind", 3)], id: id, enabled: true}
			if it.kind == 0 {
				it.level = vInt32("level")
				it.enabled = vLmin <= it.level && it.level < vLmax
			}
			items = append(items, it)
			if it.enabled {
				submitted++
			}
			id++
		}
		plan = append(plan, items)
	}
	return
}

func vDeliveredIDs(app *vRecAppender) []int {
	var ids []int
	for _, e := range app.events {
		ids = append(ids, e.Line)
	}
	for _, r := range app.raw {
		if len(r) == 1 {
			ids = append(ids, int(r[0]))
		} else {
			ids = append(ids, -1)
		}
	}
	return ids
}

func vSchedOpts() {
	if vTier() > 0 {
		vOpt("schedall", 1)
		vOpt("preempt", 1)
	} else {
		vOpt("preempt", 1)
	}
}

func H_C04_conserve() {
	vSchedOpts()
	capacity := 1 + vChoose("cap", 2)
	policy := vChoose("policy", 3)
	slow := vChoose("slow", 2) == 1
	plan, submitted := vPlan(2, 2)
	l, app := vAsyncRun(capacity, policy, slow, plan)
	delivered := app.appends + app.writes
	discarded := int(l.GetDiscardCounter())
	vAssert(delivered+discarded == submitted, "delivered-plus-discarded-equals-submitted")
	ids := vDeliveredIDs(app)
	for i := range ids {
		for j := i + 1; j < len(ids); j++ {
			vAssert(ids[i] == -1 || ids[i] != ids[j], "nothing-delivered-twice")
		}
		for _, items := range plan {
			for _, it := range items {
				if it.id == ids[i] {
					vAssert(it.enabled, "disabled-event-not-delivered")
				}
			}
		}
	}
	if BufferFullPolicy(policy) == BufferFullPolicyBlock {
		vAssert(discarded == 0 && delivered == submitted, "block-policy-delivers-everything")
	}
	// what is delivered is what was submitted, intact: identity and level of every delivered event
	for _, e := range app.events {
		known := false
		for _, items := range plan {
			for _, it := range items {
				if it.kind == 0 && it.id == e.Line {
					known = true
					vAssert(e.Level.code == it.level && e.Tag == "_t_x", "delivered-event-is-intact")
				}
			}
		}
		vAssert(known, "delivered-event-is-a-submitted-event")
	}
	vReach("end")
}

//verif:witness H_C04_contention end
//verif:bound C04 all contention harness: buffer (capacity 1..2) pre-filled while the worker is parked in a gated appender, then 2 producers submit one item each concurrently (DiscardOldest / Discard / Block x event / raw write), pre-emption at every visible operation with at most 2 pre-emptive switches; the gate is opened afterwards and conservation is checked after Stop
//verif:engine-only H_C04_contention

// H_C04_contention: two producers overflow a full buffer at the same time.
func H_C04_contention() { vContention() }

func vContention() {
	vOpt("loop", 400)
	vOpt("schedall", 1)
	vOpt("preempt", 2)
	capacity := 1 + vChoose("cap", 2)
	policy := BufferFullPolicy(vChoose("policy", 3))
	vOpt("chancap", capacity)
	app := &vGateAppender{gate: make(chan int, 8), ack: make(chan int, 8)}
	all := LevelRange{MinLevel: NoneLevel, MaxLevel: MaxLevel}
	l := &AsyncLogger{LoggerBase: LoggerBase{Name: "a", Level: all}, BufferSize: 100, BufferFullPolicy: policy}
	l.AppenderRefs.AppenderRefs = []*AppenderRef{{Appender: app, Level: all}}
	if err := l.Start(); err != nil {
		panic(err)
	}
	submitted := 0
	id := 1
	// fill the buffer; the worker may take the first item and park at the gate
	for i := 0; i < capacity; i++ {
		vSubmit(l, vItem{kind: 0, id: id, level: 300})
		id++
		submitted++
	}
	// if the worker already holds the first item (parked at the gate), top the buffer up again: it then
	// stays full and untouched by the worker while the two producers arrive
	parked := false
	if policy != BufferFullPolicyBlock && app.entered == 1 {
		vSubmit(l, vItem{kind: 0, id: id, level: 300})
		id++
		submitted++
		parked = true
	}
	firstArrival := id
	if policy == BufferFullPolicyBlock {
		// with Block the producers need the worker to make room: open the gate up-front
		for i := 0; i < 6; i++ {
			app.gate <- 1
		}
	}
	done := make(chan int, 2)
	for p := 0; p < 2; p++ {
		it := vItem{kind: 2 * vChoose("kind", 2), id: id, level: 300}
		id++
		submitted++
		go func(it vItem) {
			vSubmit(l, it)
			done <- 1
		}(it)
	}
	<-done
	<-done
	if policy != BufferFullPolicyBlock {
		for i := 0; i < 6; i++ {
			app.gate <- 1
		}
	}
	l.Stop()
	delivered := len(app.got)
	discarded := int(l.GetDiscardCounter())
	vAssert(delivered+discarded == submitted, "delivered-plus-discarded-equals-submitted-under-contention")
	if policy == BufferFullPolicyDiscardOldest && capacity >= 2 && parked {
		// the buffer was full and the worker parked: the two arrivals fit into the buffer, and
		// DiscardOldest keeps the arriving items and drops older ones
		for want := firstArrival; want <= firstArrival+1; want++ {
			found := false
			for _, g := range app.got {
				if g == want {
					found = true
				}
			}
			vAssert(found, "discard-oldest-keeps-the-arriving-item")
		}
	}
	for i := range app.got {
		for j := i + 1; j < len(app.got); j++ {
			vAssert(app.got[i] != app.got[j], "nothing-delivered-twice")
		}
	}
	vReach("end")
}
