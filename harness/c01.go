package log

import (
	"context"
	"time"
)

//verif:witness H_C01_fanout end
//verif:witness H_C01_entry end
//verif:bound C01 quick fan-out: 1..3 appender references with arbitrary int32 lower bounds, explicit (arbitrary int32) or open-ended upper bounds, arbitrary logger range and event level (int32); 15 entry points x arbitrary logger range
//verif:bound C01 thorough fan-out: 1..4 appender references, otherwise as quick
//verif:assume C01 an explicit upper bound is not the MAX level object itself ('X~MAX' is indistinguishable from 'X' after parsing; the statement does not settle that reading)
//verif:assume C01 sort.Slice is modelled as the stable insertion sort the real pdqsort uses for fewer than 12 elements

type vRefSpec struct {
	min, max int32
	explicit bool
}

// vSpecDelivered: which appender receives an event of code L (written from the statement).
func vSpecDelivered(lmin, lmax, L int32, refs []vRefSpec, i int) bool {
	eff := refs[i].max
	if !refs[i].explicit {
		found := false
		eff = 999
		for _, r := range refs {
			if r.min > refs[i].min && (!found || r.min < eff) {
				eff, found = r.min, true
			}
		}
	}
	return lmin <= L && L < lmax && refs[i].min <= L && L < eff
}

func H_C01_fanout() {
	maxK := 3
	if vTier() > 0 {
		maxK = 4
	}
	k := 1 + vChoose("refs", maxK)
	withLayout := false
	specs := make([]vRefSpec, k)
	apps := make([]*vRecAppender, k)
	refs := make([]*AppenderRef, k)
	for i := 0; i < k; i++ {
		specs[i].min = vInt32("min")
		specs[i].explicit = vChoose("explicit", 2) == 1
		maxL := MaxLevel
		if specs[i].explicit {
			specs[i].max = vInt32("max")
			maxL = Level{code: specs[i].max, name: "UPPER"}
		}
		apps[i] = &vRecAppender{}
		refs[i] = &AppenderRef{Appender: apps[i], Level: LevelRange{MinLevel: Level{code: specs[i].min, name: "LOWER"}, MaxLevel: maxL}}
	}
	lmin, lmax, L := vInt32("lmin"), vInt32("lmax"), vInt32("L")
	logger := &SyncLogger{LoggerBase: LoggerBase{Name: "l", Level: LevelRange{MinLevel: Level{code: lmin, name: "A"}, MaxLevel: Level{code: lmax, name: "B"}}}}
	logger.AppenderRefs.AppenderRefs = refs
	logger.sortByLevel() // what Refresh does after resolving the references
	_ = withLayout
	tag := &Tag{tag: "_t_x", logger: logger}
	Record(context.Background(), Level{code: L, name: "EV"}, tag, 1, String("k", "v"))
	for i := 0; i < k; i++ {
		want := vSpecDelivered(lmin, lmax, L, specs, i)
		shared := false
		if !specs[i].explicit {
			for j := 0; j < k; j++ {
				if j != i && specs[j].min == specs[i].min {
					shared = true
				}
			}
		}
		if vKnown("C01-equal-lower-bounds", shared) {
			continue
		}
		if want {
			vAssert(apps[i].appends == 1, "enabled-appender-receives-exactly-once")
		} else {
			vAssert(apps[i].appends == 0, "disabled-appender-receives-nothing")
		}
	}
	vReach("end")
}

// H_C01_entry: every entry point emits at exactly its own level, iff the logger's range contains it.
func H_C01_entry() {
	app := &vRecAppender{}
	lmin, lmax := vInt32("lmin"), vInt32("lmax")
	logger := &SyncLogger{LoggerBase: LoggerBase{Name: "l", Level: LevelRange{MinLevel: Level{code: lmin, name: "A"}, MaxLevel: Level{code: lmax, name: "B"}}}}
	logger.AppenderRefs.AppenderRefs = []*AppenderRef{{Appender: app, Level: LevelRange{MinLevel: Level{code: -2147483648, name: "LO"}, MaxLevel: Level{code: 2147483647, name: "HI"}}}}
	tag := &Tag{tag: "_t_x", logger: logger}
	ctx := context.Background()
	fn := func() []Field { return []Field{Msg("m")} }
	ep := vChoose("entry", 15)
	var code int32
	switch ep {
	case 0:
		Trace(ctx, tag, fn)
		code = 100
	case 1:
		Tracef(ctx, tag, "x %d", 1)
		code = 100
	case 2:
		Debug(ctx, tag, fn)
		code = 200
	case 3:
		Debugf(ctx, tag, "x %d", 1)
		code = 200
	case 4:
		Info(ctx, tag, Msg("m"))
		code = 300
	case 5:
		Infof(ctx, tag, "x %d", 1)
		code = 300
	case 6:
		Warn(ctx, tag, Msg("m"))
		code = 400
	case 7:
		Warnf(ctx, tag, "x %d", 1)
		code = 400
	case 8:
		Error(ctx, tag, Msg("m"))
		code = 500
	case 9:
		Errorf(ctx, tag, "x %d", 1)
		code = 500
	case 10:
		Panic(ctx, tag, Msg("m"))
		code = 600
	case 11:
		Panicf(ctx, tag, "x %d", 1)
		code = 600
	case 12:
		Fatal(ctx, tag, Msg("m"))
		code = 700
	case 13:
		Fatalf(ctx, tag, "x %d", 1)
		code = 700
	default:
		code = vInt32("L")
		Record(ctx, Level{code: code, name: "CUSTOM"}, tag, 1, Msg("m"))
	}
	if lmin <= code && code < lmax {
		vAssert(app.appends == 1, "enabled-entry-point-emits-once")
		if app.appends == 1 {
			vAssert(app.levels[0] == code, "entry-point-emits-at-its-own-level")
		}
	} else {
		vAssert(app.appends == 0, "disabled-entry-point-emits-nothing")
	}
	vReach("end")
}

//verif:witness H_C01_kinds end
//verif:bound C01 all logger kinds by direct construction: sync / async (capacity 2) with and without a logger-level layout, two appender references (one open-ended, one explicit with arbitrary int32 bounds), console logger, file logger, rolling-file logger sync/async with and without the separate .wf file; 1..3 events with one arbitrary int32 level (async kinds: buffer capacity 1, Block policy, so later events take the buffer-full path); delivery observed per appender (events or formatted lines) resp. per file

// H_C01_kinds: the level gate holds for every logger kind and for both routes (events / formatted bytes).
func H_C01_kinds() {
	vOpt("loop", 400)
	vOpt("preempt", 1)
	vOpt("chancap", 1) // async kinds: the second event already finds the buffer full (Block policy: the call waits for the worker)
	root := vFSRoot()
	defer vFSCleanup()
	dir := root + "/logs"
	vFSMkdir(dir)
	lay := &TextLayout{BaseLayout{FileLineLength: 48}}
	sink := &vSink{}
	saved := Stdout
	Stdout = sink
	defer func() { Stdout = saved }()
	lmin, lmax, L := vInt32("lmin"), vInt32("lmax"), vInt32("L")
	nEvents := 1 + vChoose("events", 3)
	lr := LevelRange{MinLevel: Level{code: lmin, name: "A"}, MaxLevel: Level{code: lmax, name: "B"}}
	base := LoggerBase{Name: "k", Level: lr}
	withLayout := vChoose("loggerLayout", 2) == 1
	if withLayout {
		base.Layout = lay
	}
	var logger Logger
	kind := vChoose("kind", 5)
	var apps [2]*vRecAppender
	var specs []vRefSpec
	switch kind {
	case 0, 1:
		m0, m1, x1 := vInt32("min0"), vInt32("min1"), vInt32("max1")
		specs = []vRefSpec{{min: m0}, {min: m1, max: x1, explicit: true}}
		apps[0], apps[1] = &vRecAppender{}, &vRecAppender{}
		refs := []*AppenderRef{
			{Appender: apps[0], Level: LevelRange{MinLevel: Level{code: m0, name: "LO0"}, MaxLevel: MaxLevel}},
			{Appender: apps[1], Level: LevelRange{MinLevel: Level{code: m1, name: "LO1"}, MaxLevel: Level{code: x1, name: "HI1"}}},
		}
		if kind == 0 {
			l := &SyncLogger{LoggerBase: base}
			l.AppenderRefs.AppenderRefs = refs
			l.sortByLevel()
			logger = l
		} else {
			l := &AsyncLogger{LoggerBase: base, BufferSize: 100, BufferFullPolicy: BufferFullPolicyBlock}
			l.AppenderRefs.AppenderRefs = refs
			l.sortByLevel()
			logger = l
			vNoNative() // the buffer capacity override exists in the engine only
		}
	case 2:
		logger = &ConsoleLogger{LoggerBase: base, ConsoleAppender: ConsoleAppender{Layout: lay}}
	case 3:
		logger = &FileLogger{LoggerBase: base, FileAppender: FileAppender{Layout: lay, FileDir: dir, FileName: "f.log"}}
	default:
		logger = &RollingFileLogger{LoggerBase: base, FileDir: dir, FileName: "r", Rotation: TimeRotation{Interval: time.Hour}, MaxAge: 168,
			Separate: vChoose("separate", 2) == 1, AsyncWrite: vChoose("async", 2) == 1, BufferSize: 100, BufferFullPolicy: BufferFullPolicyBlock}
	}
	if rl, ok := logger.(*RollingFileLogger); ok && rl.AsyncWrite {
		vNoNative()
	}
	if err := logger.Start(); err != nil {
		panic(err)
	}
	tag := &Tag{tag: "_t_x", logger: logger}
	for i := 0; i < nEvents; i++ {
		Record(context.Background(), Level{code: L, name: "EV"}, tag, 1, Msg("m"))
	}
	logger.Stop()
	enabled := lmin <= L && L < lmax
	switch kind {
	case 0, 1:
		for i := 0; i < 2; i++ {
			got := apps[i].appends + apps[i].writes
			if vSpecDelivered(lmin, lmax, L, specs, i) {
				vAssert(got == nEvents, "enabled-appender-receives-exactly-once")
			} else {
				vAssert(got == 0, "disabled-appender-receives-nothing")
			}
		}
	case 2:
		vAssert(len(sink.writes) == nEvents*b2n(enabled), "console-logger-emits-iff-enabled")
	case 3:
		c, _ := vFSRead(dir, "f.log")
		vAssert(vCountLines(c) == nEvents*b2n(enabled), "file-logger-emits-iff-enabled")
	default:
		rl := logger.(*RollingFileLogger)
		normal, wf := 0, 0
		for _, n := range vFSNames(dir) {
			c, _ := vFSRead(dir, n)
			if len(n) > 4 && n[:5] == "r.wf." {
				wf += vCountLines(c)
			} else {
				normal += vCountLines(c)
			}
		}
		if !rl.Separate {
			vAssert(normal == nEvents*b2n(enabled) && wf == 0, "rolling-logger-emits-iff-enabled")
		} else {
			// normal file serves [min,WARN), the .wf file [WARN,max)
			vAssert(normal == nEvents*b2n(enabled && L < 400), "normal-file-serves-below-warn")
			vAssert(wf == nEvents*b2n(enabled && L >= 400), "wf-file-serves-warn-and-above")
		}
	}
	vReach("end")
}

func b2n(b bool) int {
	if b {
		return 1
	}
	return 0
}

func vCountLines(b []byte) int {
	n := 0
	for _, c := range b {
		if c == '\n' {
			n++
		}
	}
	return n
}

//verif:witness H_C01_parse range single empty invalid
//verif:bound C01 all ParseLevelRange on 'ws MIN [~ MAX] ws' where MIN/MAX are registry names (8 built-in + one custom level registered by the harness) in upper / lower / alternating case with the first letter's case arbitrary and 0..1 arbitrary ASCII whitespace byte on each side; plus every ASCII string of length 0..3 (result must be an error unless it parses to registry levels)

var vCustomLevel = RegisterLevel(450, "Notice")

var vLevelNames = [5]string{"INFO", "WARN", "NOTICE", "MAX", "NONE"}

// vCased: the name in upper, lower or alternating case, with the first letter's case arbitrary.
func vCased(name string, tagn string) string {
	b := make([]byte, len(name))
	pat := vChoose(tagn+"case", 3)
	for i := 0; i < len(name); i++ {
		c := name[i]
		if pat == 1 || (pat == 2 && i%2 == 1) {
			c += 32
		}
		b[i] = c
	}
	c := vByte(tagn)
	vAssume(c == name[0] || c == name[0]+32)
	b[0] = c
	return string(b)
}

func vWS(name string) string {
	if vChoose(name+"n", 2) == 0 {
		return ""
	}
	c := vByte(name)
	vAssume(c == ' ' || c == '\t' || c == '\n' || c == '\r' || c == '\v' || c == '\f')
	return string([]byte{c})
}

func H_C01_parse() {
	vOpt("loop", 200)
	switch vChoose("form", 3) {
	case 0: // MIN
		i := vChoose("min", len(vLevelNames))
		s := vWS("l") + vCased(vLevelNames[i], "c") + vWS("r")
		r, err := ParseLevelRange(s)
		vAssert(err == nil, "registry-name-accepted-in-any-case")
		if err == nil {
			vAssert(r.MinLevel == levelRegistry[vLevelNames[i]] && r.MaxLevel == MaxLevel, "single-name-means-min-to-max")
		}
		vReach("single")
	case 1: // MIN~MAX
		i, j := vChoose("min", len(vLevelNames)), vChoose("max", len(vLevelNames))
		s := vWS("l") + vCased(vLevelNames[i], "c") + "~" + vCased(vLevelNames[j], "d") + vWS("r")
		r, err := ParseLevelRange(s)
		vAssert(err == nil, "registry-names-accepted-in-any-case")
		if err == nil {
			vAssert(r.MinLevel == levelRegistry[vLevelNames[i]] && r.MaxLevel == levelRegistry[vLevelNames[j]], "range-is-min-to-max")
			// half-open semantics over codes
			L := vInt32("L")
			vAssert(r.Enable(Level{code: L}) == (r.MinLevel.code <= L && L < r.MaxLevel.code), "half-open-range")
		}
		vReach("range")
	default: // arbitrary short ASCII strings
		n := vChoose("len", 4)
		s := vString("s", n)
		for k := 0; k < n; k++ {
			vAssume(s[k] < 0x80)
		}
		r, err := ParseLevelRange(s)
		blank := true
		for k := 0; k < n; k++ {
			c := s[k]
			if !(c == ' ' || c == '\t' || c == '\n' || c == '\r' || c == '\v' || c == '\f') {
				blank = false
			}
		}
		if blank {
			vAssert(err == nil && r.MinLevel == NoneLevel && r.MaxLevel == MaxLevel, "empty-means-everything")
			vReach("empty")
		} else if err == nil {
			// no registry name has fewer than 3 letters and none of 3 letters other than MAX exists
			vAssert(r.MinLevel == MaxLevel && r.MaxLevel == MaxLevel, "short-string-parses-only-as-a-registry-name")
		} else {
			vReach("invalid")
		}
	}
}
