package log

import "context"

//verif:witness H_C01_fanout end
//verif:witness H_C01_entry end
//verif:bound C01 quick fan-out: 1..3 appender references with arbitrary int32 lower bounds, explicit (arbitrary int32) or open-ended upper bounds, arbitrary logger range and event level (int32); 15 entry points x arbitrary logger range
//verif:bound C01 thorough fan-out: 1..4 appender references, otherwise as quick
//verif:assume C01 an explicit upper bound is not the MAX level object itself ('X~MAX' is indistinguishable from 'X' after parsing; the statement does not settle that reading)
//verif:assume C01 sort.Slice is modelled as the stable insertion sort the real pdqsort uses for fewer than 12 elements

type vRefSpec struct {
	min, max int32
	explicit bool
}

// vSpecDelivered: which appender receives an event of code L (written from the statement).
func vSpecDelivered(lmin, lmax, L int32, refs []vRefSpec, i int) bool {
	eff := refs[i].max
	if !refs[i].explicit {
		found := false
		eff = 999
		for _, r := range refs {
			if r.min > refs[i].min && (!found || r.min < eff) {
				eff, found = r.min, true
			}
		}
	}
	return lmin <= L && L < lmax && refs[i].min <= L && L < eff
}

func H_C01_fanout() {
	maxK := 3
	if vTier() > 0 {
		maxK = 4
	}
	k := 1 + vChoose("refs", maxK)
	withLayout := false
	specs := make([]vRefSpec, k)
	apps := make([]*vRecAppender, k)
	refs := make([]*AppenderRef, k)
	for i := 0; i < k; i++ {
		specs[i].min = vInt32("min")
		specs[i].explicit = vChoose("explicit", 2) == 1
		maxL := MaxLevel
		if specs[i].explicit {
			specs[i].max = vInt32("max")
			maxL = Level{code: specs[i].max, name: "UPPER"}
		}
		apps[i] = &vRecAppender{}
		refs[i] = &AppenderRef{Appender: apps[i], Level: LevelRange{MinLevel: Level{code: specs[i].min, name: "LOWER"}, MaxLevel: maxL}}
	}
	lmin, lmax, L := vInt32("lmin"), vInt32("lmax"), vInt32("L")
	logger := &SyncLogger{LoggerBase: LoggerBase{Name: "l", Level: LevelRange{MinLevel: Level{code: lmin, name: "A"}, MaxLevel: Level{code: lmax, name: "B"}}}}
	logger.AppenderRefs.AppenderRefs = refs
	logger.sortByLevel() // what Refresh does after resolving the references
	_ = withLayout
	tag := &Tag{tag: "_t_x", logger: logger}
	Record(context.Background(), Level{code: L, name: "EV"}, tag, 1, String("k", "v"))
	for i := 0; i < k; i++ {
		want := vSpecDelivered(lmin, lmax, L, specs, i)
		shared := false
		if !specs[i].explicit {
			for j := 0; j < k; j++ {
				if j != i && specs[j].min == specs[i].min {
					shared = true
				}
			}
		}
		if vKnown("C01-equal-lower-bounds", shared) {
			continue
		}
		if want {
			vAssert(apps[i].appends == 1, "enabled-appender-receives-exactly-once")
		} else {
			vAssert(apps[i].appends == 0, "disabled-appender-receives-nothing")
		}
	}
	vReach("end")
}

// H_C01_entry: every entry point emits at exactly its own level, iff the logger's range contains it.
func H_C01_entry() {
	app := &vRecAppender{}
	lmin, lmax := vInt32("lmin"), vInt32("lmax")
	logger := &SyncLogger{LoggerBase: LoggerBase{Name: "l", Level: LevelRange{MinLevel: Level{code: lmin, name: "A"}, MaxLevel: Level{code: lmax, name: "B"}}}}
	logger.AppenderRefs.AppenderRefs = []*AppenderRef{{Appender: app, Level: LevelRange{MinLevel: Level{code: -2147483648, name: "LO"}, MaxLevel: Level{code: 2147483647, name: "HI"}}}}
	tag := &Tag{tag: "_t_x", logger: logger}
	ctx := context.Background()
	fn := func() []Field { return []Field{Msg("m")} }
	ep := vChoose("entry", 15)
	var code int32
	switch ep {
	case 0:
		Trace(ctx, tag, fn)
		code = 100
	case 1:
		Tracef(ctx, tag, "x %d", 1)
		code = 100
	case 2:
		Debug(ctx, tag, fn)
		code = 200
	case 3:
		Debugf(ctx, tag, "x %d", 1)
		code = 200
	case 4:
		Info(ctx, tag, Msg("m"))
		code = 300
	case 5:
		Infof(ctx, tag, "x %d", 1)
		code = 300
	case 6:
		Warn(ctx, tag, Msg("m"))
		code = 400
	case 7:
		Warnf(ctx, tag, "x %d", 1)
		code = 400
	case 8:
		Error(ctx, tag, Msg("m"))
		code = 500
	case 9:
		Errorf(ctx, tag, "x %d", 1)
		code = 500
	case 10:
		Panic(ctx, tag, Msg("m"))
		code = 600
	case 11:
		Panicf(ctx, tag, "x %d", 1)
		code = 600
	case 12:
		Fatal(ctx, tag, Msg("m"))
		code = 700
	case 13:
		Fatalf(ctx, tag, "x %d", 1)
		code = 700
	default:
		code = vInt32("L")
		Record(ctx, Level{code: code, name: "CUSTOM"}, tag, 1, Msg("m"))
	}
	if lmin <= code && code < lmax {
		vAssert(app.appends == 1, "enabled-entry-point-emits-once")
		if app.appends == 1 {
			vAssert(app.levels[0] == code, "entry-point-emits-at-its-own-level")
		}
	} else {
		vAssert(app.appends == 0, "disabled-entry-point-emits-nothing")
	}
	vReach("end")
}
