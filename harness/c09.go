package log

import "bytes"

//verif:witness H_C09_escape end
//verif:bound C09 quick every byte string of length 0..3: all 256^n values per length, lengths path-split
//verif:bound C09 thorough every byte string of length 0..4: all 256^n values per length, lengths path-split
//verif:assume C09 reference decoder = RFC 8259 section 7 + Unicode D92 table, written in harness/oracles.go (trusted)
//verif:assume C09 strings longer than the bound are outside the claim; the 4-byte look-ahead argument of the statement is an argument, not proved

// H_C09_escape: WriteLogString on an arbitrary byte string.
func H_C09_escape() {
	maxN := 3
	if vTier() > 0 {
		maxN = 4
	}
	n := vChoose("len", maxN+1)
	in := vString("in", n)
	var buf bytes.Buffer
	WriteLogString(&buf, in)
	out := buf.Bytes()

	// (4) no raw control byte, no unescaped quote, no dangling backslash
	for i := 0; i < len(out); i++ {
		vAssert(out[i] >= 0x20, "no-raw-control-byte")
	}
	// (1)+(2)+(3): valid JSON string body, well-formed UTF-8, decodes to the sanitised input
	got, ok := vDecodeJSONStringBody(out)
	vAssert(ok, "valid-json-string-body")
	if ok {
		want := vSanitize([]byte(in))
		vAssert(vEqualCPs(got, want), "decodes-to-sanitised-input")
	}
	vReach("end")
}
