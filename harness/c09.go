package log

import "bytes"

//verif:witness H_C09_escape end
//verif:bound C09 quick every byte string of length 0..3: all 256^n values per length, lengths path-split
//verif:bound C09 thorough every byte string of length 0..4: all 256^n values per length, lengths path-split
//verif:assume C09 reference decoder = RFC 8259 section 7 + Unicode D92 table, written in harness/oracles.go (trusted)
//verif:assume C09 strings longer than the bound are outside the claim; the 4-byte look-ahead argument of the statement is an argument, not proved

// H_C09_escape: WriteLogString on an arbitrary byte string.
func H_C09_escape() {
	maxN := 3
	if vTier() > 0 {
		maxN = 4
	}
	n := vChoose("len", maxN+1)
	in := vString("in", n)
	var buf bytes.Buffer
	WriteLogString(&buf, in)
	out := buf.Bytes()
	vObserve("escaped", out) // translator validation: the engine's bytes must equal the native bytes

	// (4) no raw control byte, no unescaped quote, no dangling backslash
	for i := 0; i < len(out); i++ {
		vAssert(out[i] >= 0x20, "no-raw-control-byte")
	}
	// (1)+(2)+(3): valid JSON string body, well-formed UTF-8, decodes to the sanitised input
	got, ok := vDecodeJSONStringBody(out)
	vAssert(ok, "valid-json-string-body")
	if ok {
		want := vSanitize([]byte(in))
		vAssert(vEqualCPs(got, want), "decodes-to-sanitised-input")
	}
	vReach("end")
}

//verif:witness H_C09_encoders end
//verif:bound C09 all keys and string values through both encoders: JSONEncoder.AppendKey/AppendString and TextEncoder (top level and nested) with arbitrary bytes of length 0..2 for the key (value constant) or for the value (key constant); the emitted text between the delimiters must satisfy the same oracle as WriteLogString
// H_C09_encoders: the escaping claim for every place a key or string value is written.
func H_C09_encoders() {
	k, v := "k", "v"
	if vChoose("which", 2) == 0 {
		k = vString("key", vChoose("klen", 3))
	} else {
		v = vString("val", vChoose("vlen", 3))
	}
	var buf bytes.Buffer
	mode := vChoose("encoder", 3)
	switch mode {
	case 0: // JSON encoder: {"k":"v"}
		enc := NewJSONEncoder(&buf)
		enc.AppendEncoderBegin()
		enc.AppendKey(k)
		enc.AppendString(v)
		enc.AppendEncoderEnd()
	case 1: // text encoder, top level: k=v
		enc := NewTextEncoder(&buf, "||")
		enc.AppendEncoderBegin()
		enc.AppendKey(k)
		enc.AppendString(v)
		enc.AppendEncoderEnd()
	default: // text encoder, nested object: o={"k":"v"}
		enc := NewTextEncoder(&buf, "||")
		enc.AppendEncoderBegin()
		enc.AppendKey("o")
		enc.AppendObjectBegin()
		enc.AppendKey(k)
		enc.AppendString(v)
		enc.AppendObjectEnd()
		enc.AppendEncoderEnd()
	}
	out := buf.Bytes()
	for i := 0; i < len(out); i++ {
		vAssert(out[i] >= 0x20, "no-raw-control-byte")
	}
	wantK, wantV := vSanitize([]byte(k)), vSanitize([]byte(v))
	if mode == 1 {
		// k=v with both parts escaped: re-encode the expectation through the reference: decode each side
		// split at the first unescaped '=' that follows the escaped key (the key's escaped length is known)
		var kb bytes.Buffer
		WriteLogString(&kb, k)
		n := kb.Len()
		vAssert(len(out) >= n+1 && out[n] == '=', "text-pair-shape")
		if len(out) >= n+1 && out[n] == '=' {
			gk, ok1 := vDecodeJSONStringBody(out[:n])
			gv, ok2 := vDecodeJSONStringBody(out[n+1:])
			vAssert(ok1 && ok2, "valid-escaped-text")
			if ok1 && ok2 {
				vAssert(vEqualCPs(gk, wantK) && vEqualCPs(gv, wantV), "decodes-to-sanitised-input")
			}
		}
	} else {
		start := 0
		if mode == 2 {
			vAssert(len(out) > 2 && out[0] == 'o' && out[1] == '=', "nested-object-shape")
			start = 2
		}
		p := &vJP{b: out[start:], ok: true}
		val := p.value(0)
		vAssert(p.ok && val != nil && p.pos == len(out)-start, "valid-json-object")
		if p.ok && val != nil && val.kind == 'o' && len(val.keys) == 1 {
			vAssert(vEqualCPs(val.keys[0], wantK), "key-decodes-to-sanitised-input")
			vAssert(val.vals[0].kind == 's' && vEqualCPs(val.vals[0].s, wantV), "value-decodes-to-sanitised-input")
		} else {
			vAssert(false, "object-with-one-member")
		}
	}
	vReach("end")
}

//verif:witness H_C09_long end
//verif:bound C09 all long strings: length 8..18 of the constant byte 'a' with ONE arbitrary byte at an arbitrary position, or TWO adjacent arbitrary bytes at an arbitrary position (every alignment of a 1- or 2-byte special sequence against any word/window size up to 16)
// H_C09_long: no fast path keyed on position or window alignment may change the result.
func H_C09_long() {
	vOpt("loop", 200)
	n := 8 + vChoose("len", 11)
	pos := vChoose("pos", n)
	b := make([]byte, n)
	for i := range b {
		b[i] = 'a'
	}
	b[pos] = vByte("x")
	if vChoose("two", 2) == 1 && pos+1 < n {
		b[pos+1] = vByte("y")
	}
	in := string(b)
	var buf bytes.Buffer
	WriteLogString(&buf, in)
	out := buf.Bytes()
	for i := 0; i < len(out); i++ {
		vAssert(out[i] >= 0x20, "no-raw-control-byte")
	}
	got, ok := vDecodeJSONStringBody(out)
	vAssert(ok, "valid-json-string-body")
	if ok {
		vAssert(vEqualCPs(got, vSanitize([]byte(in))), "decodes-to-sanitised-input")
	}
	vReach("end")
}

//verif:witness H_C09_concurrent end
//verif:bound C09 all two goroutines escaping one arbitrary byte each into their own buffers at the same time; every access to a package-level variable is a scheduling point (1 pre-emptive switch): the escaper must not keep shared scratch state
//verif:engine-only H_C09_concurrent

// H_C09_concurrent: escaping is a pure function also under concurrency.
func H_C09_concurrent() {
	vOpt("globalrace", 1)
	vOpt("schedall", 1)
	vOpt("preempt", 1)
	ins := [2]string{vString("a", 1), vString("b", 1)}
	var bufs [2]bytes.Buffer
	done := make(chan int, 2)
	for g := 0; g < 2; g++ {
		go func(g int) {
			WriteLogString(&bufs[g], ins[g])
			done <- 1
		}(g)
	}
	<-done
	<-done
	for g := 0; g < 2; g++ {
		got, ok := vDecodeJSONStringBody(bufs[g].Bytes())
		vAssert(ok, "valid-json-string-body")
		if ok {
			vAssert(vEqualCPs(got, vSanitize([]byte(ins[g]))), "decodes-to-sanitised-input-under-concurrency")
		}
	}
	vReach("end")
}

//verif:witness H_C09_history end
//verif:bound C09 all history independence: a key and a value with one arbitrary byte each are escaped through the JSON or text encoder, then 0, 1, 300 or 1100 other distinct keys and values (some needing escapes), then the first pair again: the second rendering equals the first and decodes to the sanitised input
func H_C09_history() {
	vOpt("loop", 4000)
	k := "k" + vString("key", 1)
	v := "v" + vString("val", 1)
	text := vChoose("encoder", 2) == 1
	render := func(k, v string) []byte {
		var buf bytes.Buffer
		if text {
			enc := NewTextEncoder(&buf, "||")
			enc.AppendEncoderBegin()
			enc.AppendKey(k)
			enc.AppendString(v)
			enc.AppendEncoderEnd()
		} else {
			enc := NewJSONEncoder(&buf)
			enc.AppendEncoderBegin()
			enc.AppendKey(k)
			enc.AppendString(v)
			enc.AppendEncoderEnd()
		}
		return append([]byte(nil), buf.Bytes()...)
	}
	first := render(k, v)
	n := [4]int{0, 1, 300, 1100}[vChoose("others", 4)]
	for i := 0; i < n; i++ {
		d := string([]byte{byte('0' + i%10), byte('a' + (i/10)%26), byte('A' + (i/260)%26)})
		render("other\n"+d, "val\x1b"+d)
	}
	again := render(k, v)
	vAssert(vBytesEqual(first, again), "escaping-does-not-depend-on-what-was-escaped-before")
	if !text {
		// {"k?":"v?"}
		wantK, wantV := vSanitize([]byte(k)), vSanitize([]byte(v))
		p := &vJP{b: again, ok: true}
		got := p.value(0)
		vAssert(p.ok && got != nil && got.kind == 'o' && len(got.vals) == 1, "valid-json-object")
		if p.ok && got != nil && got.kind == 'o' && len(got.vals) == 1 {
			vAssert(vEqualCPs(got.keys[0], wantK) && vEqualCPs(got.vals[0].s, wantV), "decodes-to-sanitised-input-after-any-history")
		}
	}
	vReach("end")
}
