package log

import (
	"context"
	"strings"
)

//verif:witness H_C02_routing routed rejected
//verif:bound C02 quick real Refresh (toStorage, NewPlugin/inject via the reflect shim, tag-list parsing, duplicate detection, start-up, findLoggerForTag, rebinding): one registered tag of 2 (thorough: 2..3) one-byte segments (first byte a, others in {a,b}; optional leading underscore) plus the two built-in tags; two configured loggers each listing one pattern (literal or wildcard 'P_*'; for the first logger also two malformed star shapes and the empty-prefix wildcard '_*'; P of 1..2 one-byte segments over {a,b}, optional leading underscore), optional root logger; optionally a second registered tag one segment deeper or a sibling of the first (same parent, other last segment); every map iterated in insertion order or every map in reverse order (one choice per path)
//verif:bound C02 thorough as quick with P of 1..3 segments
//verif:assume C02 the wildcard with an empty prefix ('_*', first logger only) is accepted and serves no tag: the empty string is not a prefix made of whole segments
//verif:assume C02 tag and pattern bytes range over the small alphabets stated in the bounds (chosen so that collisions and prefix relations are frequent); other bytes are outside the bound

func init() {
	RegisterPlugin[vRecAppender]("Rec", PluginTypeAppender)
}

// vSpecRoute: which configured pattern serves a tag ("" = root / built-in).
func vSpecRoute(tag string, pats []string) string {
	for _, p := range pats {
		if p == tag {
			return p
		}
	}
	p := tag
	for {
		i := strings.LastIndexByte(p, '_')
		if i <= 0 {
			return ""
		}
		p = p[:i]
		for _, q := range pats {
			if q == p+"_*" {
				return q
			}
		}
	}
}

// vPattern: a literal tag, a wildcard 'P_*', or one of two malformed wildcard shapes; P has
// 1..maxSeg one-byte segments over {a,b} and an optional leading underscore.
func vPattern(name string, maxSeg int, malformed bool) string {
	nseg := 1 + vChoose(name+"segs", maxSeg)
	p := ""
	if vChoose(name+"lead", 2) == 1 {
		p = "_"
	}
	for i := 0; i < nseg; i++ {
		c := vByte(name + "b")
		vAssume(c == 'a' || c == 'b')
		if i > 0 {
			p += "_"
		}
		p += string([]byte{c})
	}
	nshape := 2
	if malformed {
		nshape = 5
	}
	switch vChoose(name+"shape", nshape) {
	case 4:
		p = "_*" // accepted, but no tag has a proper prefix before its leading underscore: serves nothing
	case 1:
		p += "_*"
	case 2:
		p += "*" // malformed: no underscore before the star
	case 3:
		p = "*_" + p // malformed: star not at the end
	}
	return p
}

// RegisterTagIfNew registers a harness tag unless a configuration is live (then it must exist already).
func RegisterTagIfNew(name string) *Tag {
	if t, ok := tagRegistry[name]; ok {
		return t
	}
	t := &Tag{tag: name}
	tagRegistry[name] = t
	return t
}

func vPatternValid(p string) bool {
	if strings.Contains(p, "*") {
		return strings.HasSuffix(p, "_*")
	}
	return true
}

func H_C02_routing() {
	vOpt("loop", 400)
	maxLen, maxPats := 2, 1
	if vTier() > 0 {
		maxLen, maxPats = 3, 1
	}
	// the registered tag
	nseg := 2
	if vTier() > 0 {
		nseg = 2 + vChoose("segments", 2)
	}
	tagName := ""
	if vChoose("lead", 2) == 1 {
		tagName = "_"
	}
	for i := 0; i < nseg; i++ {
		c := vByte("seg")
		if i == 0 {
			vAssume(c == 'a') // a<->b symmetry
		} else {
			vAssume(c == 'a' || c == 'b')
		}
		if i > 0 {
			tagName += "_"
		}
		tagName += string([]byte{c})
	}
	vAssume(isValidTag(tagName))
	tag := RegisterTag(tagName)
	zz := RegisterTagIfNew("_zz_top")
	// a second registered tag one segment deeper (prefix relation between registered tags)
	// ... or a sibling (same parent, other last segment): siblings must be resolved independently
	deepName := tagName + "_a"
	var deep *Tag
	second := 0
	if nseg < 3 {
		second = vChoose("deeper", 3)
	} else if vChoose("deeper", 2) == 1 {
		second = 2
	}
	switch second {
	case 1:
		deep = RegisterTag(deepName)
	case 2:
		last := tagName[len(tagName)-1]
		deepName = tagName[:len(tagName)-1] + string([]byte{'a' + 'b' - last})
		deep = RegisterTag(deepName)
	}
	vOpt("maporder", 3) // every map iterates in insertion order, or every map in reverse order
	savedHandles := loggerMap // natively the repository's own test files have requested handles
	loggerMap = map[string]*LoggerWrapper{}
	defer func() {
		loggerMap = savedHandles
		Destroy()
		delete(tagRegistry, tagName)
		delete(tagRegistry, deepName)
		delete(tagRegistry, "_zz_top")
		tag.logger = nil
		TagAppDef.logger, TagBizDef.logger = nil, nil
	}()
	cfg := map[string]string{
		"appender.a0.type": "Rec",
		"appender.a1.type": "Rec",
		"appender.a2.type": "Rec",
	}
	var pats [2][]string
	var all []string
	for l := 0; l < 2; l++ {
		np := 1 + vChoose("npats", maxPats)
		list := ""
		for i := 0; i < np; i++ {
			ml := maxLen
			if l == 1 && ml > 2 {
				ml = 2 // the second logger's P has at most 2 segments
			}
			p := vPattern("pat", ml, l == 0)
			pats[l] = append(pats[l], p)
			all = append(all, p)
			if i > 0 {
				list += ","
			}
			list += p
		}
		if l == 0 {
			// the first logger lists a second, constant literal; blanks around list entries are insignificant
			sep := [2]string{"", " , _zz_top "}[vChoose("second", 2)]
			if vTier() > 0 && sep != "" {
				sep = [2]string{", _zz_top", " , _zz_top "}[vChoose("secondForm", 2)]
			}
			if sep != "" {
				list += sep
				pats[l] = append(pats[l], "_zz_top")
				all = append(all, "_zz_top")
			}
		}
		name := [2]string{"l1", "l2"}[l]
		cfg["logger."+name+".type"] = "Logger"
		cfg["logger."+name+".tags"] = list
		cfg["logger."+name+".appenderRef.ref"] = [2]string{"a1", "a2"}[l]
	}
	withRoot := vChoose("root", 2) == 1
	if withRoot {
		cfg["logger.root.type"] = "Logger"
		cfg["logger.root.appenderRef.ref"] = "a0"
	}
	// reference validator
	valid := true
	for _, p := range all {
		if !vPatternValid(p) {
			valid = false
		}
	}
	for _, p := range pats[0] {
		for _, q := range pats[1] {
			if p == q {
				valid = false // the same tag string listed by two different loggers
			}
		}
	}
	err := Refresh(cfg)
	if !valid {
		vAssert(err != nil, "invalid-tag-configuration-is-rejected")
		vReach("rejected")
		return
	}
	vAssert(err == nil, "valid-configuration-accepted")
	if err != nil {
		return
	}
	// observe which appender serves each tag
	var apps [3]*vRecAppender
	for _, a := range global.appenders {
		ra := a.(*vRecAppender)
		switch ra.Name {
		case "a0":
			apps[0] = ra
		case "a1":
			apps[1] = ra
		case "a2":
			apps[2] = ra
		}
	}
	saved := Stdout
	sink := &vSink{}
	Stdout = sink
	tags := []*Tag{tag, TagAppDef, zz}
	if deep != nil {
		tags = append(tags, deep)
	}
	for _, tg := range tags {
		before := [3]int{apps[0].appends, apps[1].appends, apps[2].appends}
		nsink := len(sink.writes)
		Info(context.Background(), tg, Msg("m"))
		want := vSpecRoute(tg.tag, all)
		wantApp := -1 // built-in console logger
		if want == "" {
			if withRoot {
				wantApp = 0
			}
		} else {
			for _, p := range pats[0] {
				if p == want {
					wantApp = 1
				}
			}
			for _, p := range pats[1] {
				if p == want {
					wantApp = 2
				}
			}
		}
		for i := 0; i < 3; i++ {
			if i == wantApp {
				vAssert(apps[i].appends == before[i]+1, "tag-served-by-the-most-specific-logger")
			} else {
				vAssert(apps[i].appends == before[i], "tag-served-by-exactly-one-logger")
			}
		}
		if wantApp == -1 {
			vAssert(len(sink.writes) == nsink+1, "unrouted-tag-served-by-built-in-console-logger")
		} else {
			vAssert(len(sink.writes) == nsink, "routed-tag-not-served-by-built-in-logger")
		}
	}
	Stdout = saved
	vReach("routed")
}
