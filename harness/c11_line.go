package log

import (
	"context"
	"runtime"
)

// vFarSite: a call site whose line number does not fit 16 bits (generated or renumbered code).
//
//go:noinline
func vFarSite(tag *Tag) int {
//line zz_verif_generated.go:70000
	_, _, l0, _ := runtime.Caller(0)
	Info(context.Background(), tag, Msg("far"))
	return l0 + 1
}
