package log

import (
	"errors"
	"math"
	"strconv"
	"time"
)

//verif:witness H_C07_layout end
//verif:witness H_C07_widths end
//verif:bound C07 quick JSON layout: 0..2 call fields (first: any of 19 kinds with a key of one arbitrary byte; later ones: 7 representative kinds, one per last-token class of the encoder) + optional context string/field, 19 field kinds (bool, int/uint boundary constants, float arbitrary bit pattern by class, string of 1 arbitrary byte, nil, pointer variants, Bools/Ints/Uints/Floats/Strings of length 0..2, Array, Object nested to depth 2 with 0..2 children, FieldsFromMap with 1..2 keys of one arbitrary byte, Reflect over nil/number/string/slice/map/chan/NaN); keys of one arbitrary byte
//verif:bound C07 thorough as quick with 0..3 call fields, nesting depth 3
//verif:bound C07 all numeric widths: every instantiation Int/Uint/Float[T] and Any(k, v) dispatch with an arbitrary value of T's width; the encoder argument must equal the sign/zero extension (bit-vectors) resp. IEEE conversion
//verif:assume C07 decimal rendering of numbers is strconv's (executed natively on concrete values, trusted); a finite symbolic float is concretised to one representative per path
//verif:assume C07 time formatting is time.Format's (native, trusted); the harness uses one concrete instant
//verif:assume C07 encoding/json.Marshal runs natively on the concrete reflected shapes the harness passes

// vBadMarshaler: MarshalJSON always fails with the given text.
type vBadMarshaler struct{ msg string }

func (b vBadMarshaler) MarshalJSON() ([]byte, error) { return nil, errors.New(b.msg) }

// vJStrRaw: expected string whose exact text depends on the run-time type name; compared by suffix.
func vJStrRaw(s string) *vJ { return &vJ{kind: 's', s: vCPs(s), rawSuffix: true} }

type vArrEnc struct{ n int }

func (a vArrEnc) EncodeArray(enc Encoder) {
	for i := 0; i < a.n; i++ {
		enc.AppendInt64(int64(i))
		enc.AppendString("s")
	}
}

var vIntConsts = [5]int64{0, -1, math.MinInt64, math.MaxInt64, 42}
var vUintConsts = [3]uint64{0, math.MaxUint64, 7}
var vFloatConsts = [7]float64{math.Copysign(0, -1), 0.1, 1e21, 9007199254740992, math.MaxFloat64, math.SmallestNonzeroFloat64, -2.5}

// vKey: the first field's key is one arbitrary byte (escaping of keys), later keys are
// distinct constants (so that a reordering is visible).
var vKeySeq int

func vKey(name string, symbolic bool) string {
	if symbolic {
		return vString(name, 1)
	}
	vKeySeq++
	return "k" + string([]byte{byte('a' + vKeySeq%26)})
}

// follower kinds: one representative per last-token class of the encoder
var vFollower = [7]int{1, 4, 5, 8, 12, 17, 18}

func vFloatToken(f float64) *vJ {
	switch {
	case math.IsNaN(f):
		return vJStr("NaN")
	case math.IsInf(f, 1):
		return vJStr("+Inf")
	case math.IsInf(f, -1):
		return vJStr("-Inf")
	}
	return vJNum(strconv.FormatFloat(f, 'f', -1, 64))
}

// vGenField builds one field and the JSON value it must decode to. kinds is restricted at depth.
func vGenField(name string, depth, maxDepth int, full bool) (Field, string, *vJ) {
	var kind int
	if full {
		nk := 19
		if depth >= maxDepth {
			nk = 17 // no nested object / map below the depth bound
		}
		kind = vChoose(name+"type", nk)
	} else {
		nk := len(vFollower)
		if depth >= maxDepth {
			nk = 4
		}
		kind = vFollower[vChoose(name+"ftype", nk)]
		return vGenFollower(kind, depth, maxDepth)
	}
	// key escaping is the same code for every kind: only the Bool field gets an arbitrary key byte
	key := vKey(name+"key", kind == 0 && vChoose(name+"symkey", 2) == 1)
	switch kind {
	case 0:
		b := vBool(name + "b")
		return Bool(key, b), key, vJBool(b)
	case 1:
		v := vIntConsts[vChoose(name+"int", len(vIntConsts))]
		return Int(key, v), key, vJNum(strconv.FormatInt(v, 10))
	case 2:
		v := vUintConsts[vChoose(name+"uint", len(vUintConsts))]
		return Uint(key, v), key, vJNum(strconv.FormatUint(v, 10))
	case 3:
		var f float64
		if k := vChoose(name+"fconst", len(vFloatConsts)+1); k < len(vFloatConsts) {
			f = vFloatConsts[k]
		} else {
			f = vFloat64(name + "f")
		}
		return Float(key, f), key, vFloatToken(f)
	case 4:
		s := vString(name+"s", 1)
		return String(key, s), key, vJStr(s)
	case 5:
		return Nil(key), key, vJNull()
	case 6:
		if vChoose(name+"ptrnil", 2) == 0 {
			return IntPtr[int32](key, nil), key, vJNull()
		}
		v := int32(-7)
		return IntPtr(key, &v), key, vJNum("-7")
	case 7:
		if vChoose(name+"ptrnil", 2) == 0 {
			return StringPtr(key, nil), key, vJNull()
		}
		s := vString(name+"sp", 1)
		return StringPtr(key, &s), key, vJStr(s)
	case 8:
		n := vChoose(name+"n", 3)
		bs := make([]bool, n)
		want := vJArr()
		for i := range bs {
			bs[i] = i == 0
			want.vals = append(want.vals, vJBool(bs[i]))
		}
		return Bools(key, bs), key, want
	case 9:
		n := vChoose(name+"n", 3)
		xs := make([]int16, n)
		want := vJArr()
		for i := range xs {
			xs[i] = int16(-300 * (i + 1))
			want.vals = append(want.vals, vJNum(strconv.Itoa(int(xs[i]))))
		}
		return Ints(key, xs), key, want
	case 10:
		n := vChoose(name+"n", 3)
		xs := make([]string, n)
		want := vJArr()
		for i := range xs {
			xs[i] = vString(name+"e", 1)
			want.vals = append(want.vals, vJStr(xs[i]))
		}
		return Strings(key, xs), key, want
	case 11:
		n := vChoose(name+"n", 3)
		xs := make([]float64, n)
		want := vJArr()
		for i := range xs {
			if i == 0 {
				xs[i] = vFloat64(name + "fe")
			} else {
				xs[i] = 1.5
			}
			want.vals = append(want.vals, vFloatToken(xs[i]))
		}
		return Floats(key, xs), key, want
	case 12:
		n := vChoose(name+"n", 3)
		want := vJArr()
		for i := 0; i < n; i++ {
			want.vals = append(want.vals, vJNum(strconv.Itoa(i)), vJStr("s"))
		}
		return Array(key, vArrEnc{n}), key, want
	case 13:
		// reflected values
		switch vChoose(name+"refl", 7) {
		case 6:
			// a json.Marshaler that fails with a text containing characters that need escaping
			msg := "bad\n\"value\"\t" + vString(name+"errb", 1)
			return Reflect(key, vBadMarshaler{msg}), key, vJStrRaw("json: error calling MarshalJSON for type log.vBadMarshaler: " + msg)
		case 0:
			return Reflect(key, nil), key, vJNull()
		case 1:
			return Reflect(key, 12), key, vJNum("12")
		case 2:
			s := vString(name+"rs", 1)
			// encoding/json escapes differently (e.g. <) but must decode to the same text
			return Reflect(key, s), key, vJStr(s)
		case 3:
			return Reflect(key, []int{1, 2}), key, vJArr(vJNum("1"), vJNum("2"))
		case 4:
			o := vJObj()
			o.add("a", vJNum("1"))
			return Reflect(key, map[string]int{"a": 1}), key, o
		default:
			return Reflect(key, make(chan int)), key, vJStr("json: unsupported type: chan int")
		}
	case 14:
		return Reflect(key, math.NaN()), key, vJStr("json: unsupported value: NaN")
	case 15:
		n := vChoose(name+"n", 3)
		xs := make([]uint8, n)
		want := vJArr()
		for i := range xs {
			xs[i] = uint8(200 + i)
			want.vals = append(want.vals, vJNum(strconv.Itoa(int(xs[i]))))
		}
		return Uints(key, xs), key, want
	case 16:
		v := vIntConsts[vChoose(name+"int", len(vIntConsts))]
		return Any(key, v), key, vJNum(strconv.FormatInt(v, 10))
	case 17:
		n := vChoose(name+"children", 3)
		want := vJObj()
		var children []Field
		for i := 0; i < n; i++ {
			f, k, w := vGenField(name+"c", depth+1, maxDepth, false)
			if f.Type == ValueTypeFromMap {
				children = append(children, f)
				want.keys = append(want.keys, w.keys...)
				want.vals = append(want.vals, w.vals...)
				continue
			}
			children = append(children, f)
			want.add(k, w)
		}
		return Object(key, children...), key, want
	default:
		// FieldsFromMap: keys sorted bytewise; the expectation is the list of members to splice in
		n := 1 + vChoose(name+"mapn", 2)
		m := map[string]any{}
		k1 := vString(name+"mk", 1)
		m[k1] = 1
		want := vJObj()
		if n == 2 {
			k2 := vString(name+"mk2", 1)
			vAssume(k1 != k2)
			m[k2] = "v"
			if k1 < k2 {
				want.add(k1, vJNum("1"))
				want.add(k2, vJStr("v"))
			} else {
				want.add(k2, vJStr("v"))
				want.add(k1, vJNum("1"))
			}
		} else {
			want.add(k1, vJNum("1"))
		}
		return FieldsFromMap(m), "", want
	}
}

// vGenFollower: constant-valued fields, one per last-token class of the encoder.
func vGenFollower(kind, depth, maxDepth int) (Field, string, *vJ) {
	key := vKey("", false)
	switch kind {
	case 1:
		return Int(key, 42), key, vJNum("42")
	case 4:
		return String(key, "s"), key, vJStr("s")
	case 5:
		return Nil(key), key, vJNull()
	case 8:
		return Bools(key, nil), key, vJArr()
	case 12:
		return Array(key, vArrEnc{1}), key, vJArr(vJNum("0"), vJStr("s"))
	case 17:
		want := vJObj()
		var children []Field
		if depth < maxDepth && vChoose("fchild", 2) == 1 {
			f, k, w := vGenFollower(vFollower[vChoose("fchildtype", 4)], depth+1, maxDepth)
			children = append(children, f)
			want.add(k, w)
		}
		return Object(key, children...), key, want
	default:
		want := vJObj()
		want.add("mk", vJNum("1"))
		return FieldsFromMap(map[string]any{"mk": 1}), "", want
	}
}

func vAddMember(o *vJ, f Field, k string, w *vJ) {
	// what the text layout shows without quotes at the top level: string fields, marshal-error
	// texts and non-finite floats
	switch f.Type {
	case ValueTypeString:
		w.unq = true
	case ValueTypeFloat64:
		w.unq = w.kind == 's'
	case ValueTypeReflect:
		if _, isStr := f.Any.(string); !isStr && w.kind == 's' {
			w.unq = true
		}
	case ValueTypeFromMap:
		for _, m := range w.vals {
			if m.kind == 's' {
				m.unq = true
			}
		}
	}
	if f.Type == ValueTypeFromMap {
		o.keys = append(o.keys, w.keys...)
		o.vals = append(o.vals, w.vals...)
		return
	}
	o.add(k, w)
}

var vFixedTime = time.Date(2025, 6, 1, 12, 30, 45, 123000000, time.UTC)

func vGenEvent(maxFields, maxDepth int) (*Event, *vJ) {
	vKeySeq = 0
	want := vJObj()
	e := &Event{Level: InfoLevel, Time: vFixedTime, File: "file.go", Line: 10, Tag: "_t_x"}
	want.add("level", vJStr("info"))
	want.add("time", vJStr("2025-06-01T12:30:45.123"))
	want.add("fileLine", vJStr("file.go:10"))
	want.add("tag", vJStr("_t_x"))
	if vChoose("ctx", 2) == 1 {
		e.CtxString = "cs"
		want.add("ctxString", vJStr("cs"))
		e.CtxFields = []Field{Int("cf", 5)}
		want.add("cf", vJNum("5"))
	}
	n := vChoose("nfields", maxFields+1)
	for i := 0; i < n; i++ {
		f, k, w := vGenField("f", 0, maxDepth, i == 0)
		e.Fields = append(e.Fields, f)
		vAddMember(want, f, k, w)
	}
	return e, want
}

func H_C07_layout() {
	maxFields, maxDepth := 2, 1
	if vTier() > 0 {
		maxFields, maxDepth = 3, 2
	}
	e, want := vGenEvent(maxFields, maxDepth)
	l := &JSONLayout{BaseLayout{FileLineLength: 48}}
	out := l.ToBytes(e)
	vObserve("line", out)
	got, ok := vParseJSONLine(out)
	vAssert(ok, "one-valid-json-object-per-line")
	if ok {
		vAssert(got.kind == 'o', "top-level-is-object")
		vAssert(vJEqual(got, want), "decodes-to-logged-data-in-order")
	}
	vReach("end")
}

type vRecEncoder struct {
	i64 []int64
	u64 []uint64
	f64 []float64
}

func (r *vRecEncoder) AppendEncoderBegin()    {}
func (r *vRecEncoder) AppendEncoderEnd()      {}
func (r *vRecEncoder) AppendObjectBegin()     {}
func (r *vRecEncoder) AppendObjectEnd()       {}
func (r *vRecEncoder) AppendArrayBegin()      {}
func (r *vRecEncoder) AppendArrayEnd()        {}
func (r *vRecEncoder) AppendKey(key string)   {}
func (r *vRecEncoder) AppendBool(v bool)      {}
func (r *vRecEncoder) AppendInt64(v int64)    { r.i64 = append(r.i64, v) }
func (r *vRecEncoder) AppendUint64(v uint64)  { r.u64 = append(r.u64, v) }
func (r *vRecEncoder) AppendFloat64(v float64) { r.f64 = append(r.f64, v) }
func (r *vRecEncoder) AppendString(v string)  {}
func (r *vRecEncoder) AppendReflect(v any)    {}

func vSameFloat(a, b float64) bool {
	if math.IsNaN(a) || math.IsNaN(b) {
		return math.IsNaN(a) && math.IsNaN(b)
	}
	return math.Float64bits(a) == math.Float64bits(b)
}

// H_C07_widths: numeric fidelity of the constructors over the full range of every width.
func H_C07_widths() {
	r := &vRecEncoder{}
	via := vChoose("via", 4) // 0 constructor, 1 Any, 2 pointer, 3 slice
	var wi int64
	var wu uint64
	var wf float64
	kind := 0
	switch vChoose("type", 12) {
	case 0:
		v := vInt("v")
		wi = int64(v)
		vEncInt(r, via, v)
	case 1:
		v := vInt8("v")
		wi = int64(v)
		vEncInt(r, via, v)
	case 2:
		v := vInt16("v")
		wi = int64(v)
		vEncInt(r, via, v)
	case 3:
		v := vInt32("v")
		wi = int64(v)
		vEncInt(r, via, v)
	case 4:
		v := vInt64("v")
		wi = v
		vEncInt(r, via, v)
	case 5:
		v := vUint("v")
		wu, kind = uint64(v), 1
		vEncUint(r, via, v)
	case 6:
		v := vUint8("v")
		wu, kind = uint64(v), 1
		vEncUint(r, via, v)
	case 7:
		v := vUint16("v")
		wu, kind = uint64(v), 1
		vEncUint(r, via, v)
	case 8:
		v := vUint32("v")
		wu, kind = uint64(v), 1
		vEncUint(r, via, v)
	case 9:
		v := vUint64("v")
		wu, kind = v, 1
		vEncUint(r, via, v)
	case 10:
		v := vFloat64("v")
		wf, kind = v, 2
		vEncFloat(r, via, v)
	default:
		v := vFloat32("v")
		wf, kind = float64(v), 2
		vEncFloat(r, via, v)
	}
	switch kind {
	case 0:
		vAssert(len(r.i64) == 1 && len(r.u64) == 0 && len(r.f64) == 0, "signed-integer-encoded-as-int64")
		if len(r.i64) == 1 {
			vAssert(r.i64[0] == wi, "signed-integer-exact")
		}
	case 1:
		vAssert(len(r.u64) == 1 && len(r.i64) == 0 && len(r.f64) == 0, "unsigned-integer-encoded-as-uint64")
		if len(r.u64) == 1 {
			vAssert(r.u64[0] == wu, "unsigned-integer-exact")
		}
	default:
		vAssert(len(r.f64) == 1 && len(r.i64) == 0 && len(r.u64) == 0, "float-encoded-as-float64")
		if len(r.f64) == 1 {
			vAssert(vSameFloat(r.f64[0], wf), "float-bit-exact")
		}
	}
	vReach("end")
}

func vEncInt[T IntType](r *vRecEncoder, via int, v T) {
	switch via {
	case 0:
		Int("k", v).Encode(r)
	case 1:
		Any("k", v).Encode(r)
	case 2:
		Any("k", &v).Encode(r)
	default:
		Any("k", []T{v}).Encode(r)
	}
}

func vEncUint[T UintType](r *vRecEncoder, via int, v T) {
	switch via {
	case 0:
		Uint("k", v).Encode(r)
	case 1:
		Any("k", v).Encode(r)
	case 2:
		Any("k", &v).Encode(r)
	default:
		Any("k", []T{v}).Encode(r)
	}
}

func vEncFloat[T FloatType](r *vRecEncoder, via int, v T) {
	switch via {
	case 0:
		Float("k", v).Encode(r)
	case 1:
		Any("k", v).Encode(r)
	case 2:
		Any("k", &v).Encode(r)
	default:
		Any("k", []T{v}).Encode(r)
	}
}

//verif:witness H_C07_strings end
//verif:bound C07 all string fidelity through the whole layout: one String field whose key (0..2 bytes, thorough 0..3) or value (0..3 bytes, thorough 0..4) are arbitrary bytes; the line must parse and decode to the sanitised key/value
// H_C07_strings: arbitrary key/value bytes through JSONLayout.ToBytes and the reference parser.
func H_C07_strings() {
	var key, val string
	kmax, vmax := 2, 3
	if vTier() > 0 {
		kmax, vmax = 3, 4
	}
	if vChoose("which", 2) == 0 {
		key = vString("key", vChoose("klen", kmax+1))
		val = "v"
	} else {
		key = "k"
		val = vString("val", vChoose("vlen", vmax+1))
	}
	e := &Event{Level: InfoLevel, Time: vFixedTime, File: "file.go", Line: 10, Tag: "_t_x", Fields: []Field{String(key, val)}}
	out := (&JSONLayout{BaseLayout{FileLineLength: 48}}).ToBytes(e)
	got, ok := vParseJSONLine(out)
	vAssert(ok && got.kind == 'o' && len(got.vals) == 5, "one-valid-json-object-per-line")
	if ok && got.kind == 'o' && len(got.vals) == 5 {
		vAssert(vEqualCPs(got.keys[4], vCPs(key)), "key-decodes-to-sanitised-input")
		vAssert(got.vals[4].kind == 's' && vEqualCPs(got.vals[4].s, vCPs(val)), "value-decodes-to-sanitised-input")
	}
	vReach("end")
}

//verif:witness H_C07_retained end
//verif:bound C07 all two events formatted one after the other by the same layout with the first line retained by the caller; the buffer-reuse cap (BufferCap) is an arbitrary int32; both retained lines must still decode to their own event
// H_C07_retained: a returned line belongs to the caller (it must survive the next formatting).
func H_C07_retained() {
	savedCap := BufferCap.Load()
	BufferCap.Store(vInt32("bufferCap"))
	defer BufferCap.Store(savedCap)
	l := &JSONLayout{BaseLayout{FileLineLength: 48}}
	e1 := &Event{Level: InfoLevel, Time: vFixedTime, File: "file.go", Line: 10, Tag: "_t_x", Fields: []Field{String("which", "first-event")}}
	e2 := &Event{Level: WarnLevel, Time: vFixedTime, File: "file.go", Line: 11, Tag: "_t_x", Fields: []Field{String("which", "second"), Int("n", 2)}}
	out1 := l.ToBytes(e1)
	out2 := l.ToBytes(e2)
	g1, ok1 := vParseJSONLine(out1)
	g2, ok2 := vParseJSONLine(out2)
	vAssert(ok1 && ok2, "both-lines-valid")
	if ok1 && ok2 {
		vAssert(len(g1.vals) == 5 && vEqualCPs(g1.vals[4].s, vCPs("first-event")), "first-line-still-decodes-to-the-first-event")
		vAssert(len(g2.vals) == 6 && vEqualCPs(g2.vals[4].s, vCPs("second")), "second-line-decodes-to-the-second-event")
	}
	vReach("end")
}

// vProgEnc: a user-written ArrayValue that drives the Encoder interface with an arbitrary
// short sequence of element operations (scalars, reflected values incl. unmarshallable ones,
// nested arrays and objects).
type vProgEnc struct{ ops []int }

const vProgOps = 11

func (p vProgEnc) EncodeArray(enc Encoder) {
	for _, op := range p.ops {
		switch op {
		case 0:
			enc.AppendInt64(-3)
		case 1:
			enc.AppendUint64(7)
		case 2:
			enc.AppendFloat64(1.5)
		case 3:
			enc.AppendFloat64(math.NaN())
		case 4:
			enc.AppendBool(true)
		case 5:
			enc.AppendString("s\n")
		case 6:
			enc.AppendReflect(map[string]int{"a": 1})
		case 7:
			enc.AppendReflect(make(chan int))
		case 8:
			enc.AppendArrayBegin()
			enc.AppendInt64(1)
			enc.AppendArrayEnd()
		case 9:
			enc.AppendObjectBegin()
			enc.AppendKey("k")
			enc.AppendInt64(1)
			enc.AppendObjectEnd()
		default:
			enc.AppendArrayBegin()
			enc.AppendArrayEnd()
		}
	}
}

func vProgWant(ops []int) *vJ {
	want := vJArr()
	for _, op := range ops {
		var w *vJ
		switch op {
		case 0:
			w = vJNum("-3")
		case 1:
			w = vJNum("7")
		case 2:
			w = vJNum("1.5")
		case 3:
			w = vJStr("NaN")
		case 4:
			w = vJBool(true)
		case 5:
			w = vJStr("s\n")
		case 6:
			w = vJObj()
			w.add("a", vJNum("1"))
		case 7:
			w = vJStr("json: unsupported type: chan int")
		case 8:
			w = vJArr(vJNum("1"))
		case 9:
			w = vJObj()
			w.add("k", vJNum("1"))
		default:
			w = vJArr()
		}
		want.vals = append(want.vals, w)
	}
	return want
}

//verif:witness H_C07_array end
//verif:bound C07 all Array with a custom encoder: every sequence of 1..3 element operations over 11 kinds (int, uint, float, NaN, bool, string with a line break, reflected map, reflected unmarshallable value, nested array, nested object, empty array) followed by an ordinary field; the line must parse and decode to the elements in order
func H_C07_array() {
	n := 1 + vChoose("nops", 3)
	ops := make([]int, n)
	for i := range ops {
		ops[i] = vChoose("op", vProgOps)
	}
	e := &Event{Level: InfoLevel, Time: vFixedTime, File: "file.go", Line: 10, Tag: "_t_x"}
	e.Fields = []Field{Array("arr", vProgEnc{ops}), Int("z", 1)}
	want := vJObj()
	want.add("level", vJStr("info"))
	want.add("time", vJStr("2025-06-01T12:30:45.123"))
	want.add("fileLine", vJStr("file.go:10"))
	want.add("tag", vJStr("_t_x"))
	want.add("arr", vProgWant(ops))
	want.add("z", vJNum("1"))
	l := &JSONLayout{BaseLayout{FileLineLength: 48}}
	out := l.ToBytes(e)
	vObserve("line", out)
	got, ok := vParseJSONLine(out)
	vAssert(ok, "custom-array-encoder-yields-valid-json")
	if ok {
		vAssert(vJEqual(got, want), "custom-array-elements-decode-in-order")
	}
	vReach("end")
}

// vReentrantEnc: a value whose encoder itself logs (re-entrant logging under the same context).
type vReentrantEnc struct {
	l   *JSONLayout
	ctx []Field
	out *[]byte
}

func (r vReentrantEnc) EncodeArray(enc Encoder) {
	enc.AppendInt64(1)
	inner := &Event{Level: WarnLevel, Time: vFixedTime, File: "in.go", Line: 20, Tag: "_t_y"}
	inner.CtxFields = r.ctx
	inner.Fields = []Field{String("x", "9"), String("y", "8")}
	*r.out = r.l.ToBytes(inner)
}

//verif:witness H_C07_reentrant end
//verif:bound C07 all two events sharing one context-field slice (1 field, spare capacity 0 or 4), the second formatted while the first is being encoded (its custom array encoder logs): each line must decode to its own fields, and the caller's context slice is left as it was
func H_C07_reentrant() {
	spare := [2]int{0, 4}[vChoose("spare", 2)]
	ctx := make([]Field, 1, 1+spare)
	ctx[0] = Int("cf", 5)
	l := &JSONLayout{BaseLayout{FileLineLength: 48}}
	var innerOut []byte
	e := &Event{Level: InfoLevel, Time: vFixedTime, File: "file.go", Line: 10, Tag: "_t_x"}
	e.CtxFields = ctx
	e.Fields = []Field{Array("arr", vReentrantEnc{l, ctx, &innerOut}), String("a", "1"), String("b", "2")}
	out := l.ToBytes(e)
	want := vJObj()
	want.add("level", vJStr("info"))
	want.add("time", vJStr("2025-06-01T12:30:45.123"))
	want.add("fileLine", vJStr("file.go:10"))
	want.add("tag", vJStr("_t_x"))
	want.add("cf", vJNum("5"))
	want.add("arr", vJArr(vJNum("1")))
	want.add("a", vJStr("1"))
	want.add("b", vJStr("2"))
	got, ok := vParseJSONLine(out)
	vAssert(ok, "outer-line-is-valid-json")
	if ok {
		vAssert(vJEqual(got, want), "outer-event-decodes-to-its-own-fields")
	}
	wantIn := vJObj()
	wantIn.add("level", vJStr("warn"))
	wantIn.add("time", vJStr("2025-06-01T12:30:45.123"))
	wantIn.add("fileLine", vJStr("in.go:20"))
	wantIn.add("tag", vJStr("_t_y"))
	wantIn.add("cf", vJNum("5"))
	wantIn.add("x", vJStr("9"))
	wantIn.add("y", vJStr("8"))
	gotIn, okIn := vParseJSONLine(innerOut)
	vAssert(okIn, "inner-line-is-valid-json")
	if okIn {
		vAssert(vJEqual(gotIn, wantIn), "inner-event-decodes-to-its-own-fields")
	}
	vAssert(len(ctx) == 1 && ctx[0].Key == "cf", "context-slice-unchanged")
	vReach("end")
}
