package log

// Harness-side handles on the environment models. In the engine these functions are
// intercepted and act on the in-engine file-system / clock models; natively they act on a
// real temporary directory so that a counterexample can be replayed against the real build.

import (
	"io/fs"
	"os"
	"path/filepath"
	"sort"
	"time"
)

// vDirEntry is what the engine's os.ReadDir model returns (name, isDir, mtime).
type vDirEntry struct {
	name  string
	dir   bool
	mtime time.Time
}

func (d *vDirEntry) Name() string               { return d.name }
func (d *vDirEntry) IsDir() bool                { return d.dir }
func (d *vDirEntry) Type() fs.FileMode          { return 0 }
func (d *vDirEntry) Info() (fs.FileInfo, error) { return d, nil }
func (d *vDirEntry) Size() int64                { return 0 }
func (d *vDirEntry) Mode() fs.FileMode          { return 0 }
func (d *vDirEntry) ModTime() time.Time         { return d.mtime }
func (d *vDirEntry) Sys() any                   { return nil }

var vNativeRoot string

// vFSRoot: "" in the engine; a fresh temporary directory natively.
func vFSRoot() string {
	d, err := os.MkdirTemp("", "verif-fs-")
	if err != nil {
		panic(err)
	}
	vNativeRoot = d
	return d
}

func vFSCleanup() {
	if vNativeRoot != "" {
		os.RemoveAll(vNativeRoot)
		vNativeRoot = ""
	}
}

func vFSMkdir(dir string) { os.MkdirAll(dir, 0o755) }
func vFSRmdir(dir string) { os.Rename(dir, dir+".gone") }

// vFSAddFile creates dir/name with the given content, last modified ageSec seconds ago.
func vFSAddFile(dir, name string, content []byte, ageSec int64, isDir bool) {
	p := filepath.Join(dir, name)
	if isDir {
		os.MkdirAll(p, 0o755)
	} else {
		os.WriteFile(p, content, 0o644)
	}
	mt := time.Now().Add(-time.Duration(ageSec) * time.Second)
	os.Chtimes(p, mt, mt)
}

func vFSExists(dir, name string) bool {
	_, err := os.Lstat(filepath.Join(dir, name))
	return err == nil
}

func vFSRead(dir, name string) ([]byte, bool) {
	b, err := os.ReadFile(filepath.Join(dir, name))
	return b, err == nil
}

func vFSNames(dir string) []string {
	es, _ := os.ReadDir(dir)
	var out []string
	for _, e := range es {
		out = append(out, e.Name())
	}
	sort.Strings(out)
	return out
}

// vFSOpenFDs: open descriptors on regular model files (natively: entries of /proc/self/fd under the
// root that are not directories; a directory handle held transiently by a listing is not a log file).
func vFSOpenFDs() int {
	es, _ := os.ReadDir("/proc/self/fd")
	n := 0
	for _, e := range es {
		t, err := os.Readlink("/proc/self/fd/" + e.Name())
		if err == nil && vNativeRoot != "" && len(t) >= len(vNativeRoot) && t[:len(vNativeRoot)] == vNativeRoot {
			if st, err := os.Stat(t); err == nil && st.IsDir() {
				continue
			}
			n++
		}
	}
	return n
}

func vFSOpenAttempts() int { return 0 }

// vClockMode: 0 concrete clock, 1 symbolic non-decreasing readings, 2 one symbolic frozen reading.
func vClockMode(mode int) {}

// vFaults enables symbolic OpenFile / Write failures (1: each call may fail, a path split; write == 2: every write fails).
func vFaults(open, write int) {}

// vClockCount / vClockReading expose the symbolic clock's readings (engine only).
func vClockCount() int          { return 0 }
func vClockReading(i int) int64 { return 0 }

// vFSWriteCount: number of successful write calls on model files (engine only).
func vFSWriteCount() int { return 0 }

// vClockStall: stall rule for the symbolic clock (engine only), see DESIGN.md C13.
func vClockStall(intervalSec int) {}

// vClockWindow: all symbolic readings lie within sec seconds of the first one (engine only).
func vClockWindow(sec int) {}

// vFSWriteFaults: number of injected write faults so far (engine only).
func vFSWriteFaults() int { return 0 }

// vDrain lets all other goroutines run until none of them can make progress (engine); natively a short sleep.
func vDrain() { time.Sleep(50 * time.Millisecond) }

// vClockAdvance moves the engine's concrete clock forward; vClockUnix reads it (engine only).
func vClockAdvance(sec int) {}
func vClockUnix() int64     { return time.Now().Unix() }
