package log

// Independent RFC 8259 parser used as the oracle for C07/C08 (no encoding/json, no unicode/utf8).

type vJ struct {
	kind byte    // 'o' object, 'a' array, 's' string, 'n' number, 'b' bool, 'z' null
	s    []int32 // string: code points
	num  []byte  // number: token text
	b    bool
	keys [][]int32
	vals []*vJ
	raw  []byte // token text of the whole value
	rawKeys [][]byte // object: key tokens including the quotes
	rawSuffix bool // expectation only: compare the trailing code points only (text starts with a run-time type name)
	unq  bool   // expectation only: the text layout shows this value without its quotes
}

type vJP struct {
	b   []byte
	pos int
	ok  bool
}

func (p *vJP) ws() {
	for p.pos < len(p.b) {
		c := p.b[p.pos]
		if c == ' ' || c == '\t' || c == '\n' || c == '\r' {
			p.pos++
		} else {
			return
		}
	}
}

func (p *vJP) fail() *vJ { p.ok = false; return nil }

func (p *vJP) lit(s string) bool {
	if p.pos+len(s) > len(p.b) {
		return false
	}
	for i := 0; i < len(s); i++ {
		if p.b[p.pos+i] != s[i] {
			return false
		}
	}
	p.pos += len(s)
	return true
}

func (p *vJP) str() ([]int32, bool) {
	// p.b[p.pos] == '"'
	start := p.pos + 1
	i := start
	for i < len(p.b) {
		c := p.b[i]
		if c == '"' {
			break
		}
		if c == '\\' {
			i++
		}
		i++
	}
	if i >= len(p.b) {
		return nil, false
	}
	cps, ok := vDecodeJSONStringBody(p.b[start:i])
	p.pos = i + 1
	return cps, ok
}

func vIsDigit(c byte) bool { return '0' <= c && c <= '9' }

func (p *vJP) number() *vJ {
	start := p.pos
	if p.pos < len(p.b) && p.b[p.pos] == '-' {
		p.pos++
	}
	if p.pos >= len(p.b) || !vIsDigit(p.b[p.pos]) {
		return p.fail()
	}
	if p.b[p.pos] == '0' {
		p.pos++
	} else {
		for p.pos < len(p.b) && vIsDigit(p.b[p.pos]) {
			p.pos++
		}
	}
	if p.pos < len(p.b) && p.b[p.pos] == '.' {
		p.pos++
		if p.pos >= len(p.b) || !vIsDigit(p.b[p.pos]) {
			return p.fail()
		}
		for p.pos < len(p.b) && vIsDigit(p.b[p.pos]) {
			p.pos++
		}
	}
	if p.pos < len(p.b) && (p.b[p.pos] == 'e' || p.b[p.pos] == 'E') {
		p.pos++
		if p.pos < len(p.b) && (p.b[p.pos] == '+' || p.b[p.pos] == '-') {
			p.pos++
		}
		if p.pos >= len(p.b) || !vIsDigit(p.b[p.pos]) {
			return p.fail()
		}
		for p.pos < len(p.b) && vIsDigit(p.b[p.pos]) {
			p.pos++
		}
	}
	return &vJ{kind: 'n', num: p.b[start:p.pos]}
}

func (p *vJP) value(depth int) *vJ {
	if depth > 12 {
		return p.fail()
	}
	p.ws()
	if p.pos >= len(p.b) {
		return p.fail()
	}
	start := p.pos
	var v *vJ
	switch c := p.b[p.pos]; {
	case c == '{':
		p.pos++
		v = &vJ{kind: 'o'}
		p.ws()
		if p.pos < len(p.b) && p.b[p.pos] == '}' {
			p.pos++
			break
		}
		for {
			p.ws()
			if p.pos >= len(p.b) || p.b[p.pos] != '"' {
				return p.fail()
			}
			kstart := p.pos
			k, ok := p.str()
			if !ok {
				return p.fail()
			}
			v.rawKeys = append(v.rawKeys, p.b[kstart:p.pos])
			p.ws()
			if p.pos >= len(p.b) || p.b[p.pos] != ':' {
				return p.fail()
			}
			p.pos++
			e := p.value(depth + 1)
			if !p.ok {
				return nil
			}
			v.keys = append(v.keys, k)
			v.vals = append(v.vals, e)
			p.ws()
			if p.pos < len(p.b) && p.b[p.pos] == ',' {
				p.pos++
				continue
			}
			if p.pos < len(p.b) && p.b[p.pos] == '}' {
				p.pos++
				break
			}
			return p.fail()
		}
	case c == '[':
		p.pos++
		v = &vJ{kind: 'a'}
		p.ws()
		if p.pos < len(p.b) && p.b[p.pos] == ']' {
			p.pos++
			break
		}
		for {
			e := p.value(depth + 1)
			if !p.ok {
				return nil
			}
			v.vals = append(v.vals, e)
			p.ws()
			if p.pos < len(p.b) && p.b[p.pos] == ',' {
				p.pos++
				continue
			}
			if p.pos < len(p.b) && p.b[p.pos] == ']' {
				p.pos++
				break
			}
			return p.fail()
		}
	case c == '"':
		s, ok := p.str()
		if !ok {
			return p.fail()
		}
		v = &vJ{kind: 's', s: s}
	case c == 't':
		if !p.lit("true") {
			return p.fail()
		}
		v = &vJ{kind: 'b', b: true}
	case c == 'f':
		if !p.lit("false") {
			return p.fail()
		}
		v = &vJ{kind: 'b', b: false}
	case c == 'n':
		if !p.lit("null") {
			return p.fail()
		}
		v = &vJ{kind: 'z'}
	case c == '-' || vIsDigit(c):
		v = p.number()
		if !p.ok {
			return nil
		}
	default:
		return p.fail()
	}
	v.raw = p.b[start:p.pos]
	return v
}

// vParseJSONLine: exactly one JSON value followed by exactly one '\n'.
func vParseJSONLine(b []byte) (*vJ, bool) {
	p := &vJP{b: b, ok: true}
	v := p.value(0)
	if !p.ok {
		return nil, false
	}
	if p.pos+1 != len(b) || b[p.pos] != '\n' {
		return nil, false
	}
	return v, true
}

func vCPs(s string) []int32 { return vSanitize([]byte(s)) }

func vJStr(s string) *vJ   { return &vJ{kind: 's', s: vCPs(s)} }
func vJNum(t string) *vJ   { return &vJ{kind: 'n', num: []byte(t)} }
func vJBool(b bool) *vJ    { return &vJ{kind: 'b', b: b} }
func vJNull() *vJ          { return &vJ{kind: 'z'} }
func vJArr(v ...*vJ) *vJ   { return &vJ{kind: 'a', vals: v} }
func vJObj() *vJ           { return &vJ{kind: 'o'} }
func (o *vJ) add(k string, v *vJ) {
	o.keys = append(o.keys, vCPs(k))
	o.vals = append(o.vals, v)
}

// vJEqual: structural equality; numbers compare by token text.
func vJEqual(a, b *vJ) bool {
	if a == nil || b == nil {
		return a == b
	}
	if a.kind != b.kind {
		return false
	}
	switch a.kind {
	case 's':
		if b.rawSuffix {
			// the expected text ends with the marshaler's own message; the prefix names the type
			k := vIndexCP(b.s, ':')
			if k < 0 || len(a.s) < len(b.s)-k {
				return false
			}
			return vEqualCPs(a.s[len(a.s)-(len(b.s)-k):], b.s[k:])
		}
		return vEqualCPs(a.s, b.s)
	case 'n':
		return vBytesEqual(a.num, b.num)
	case 'b':
		return a.b == b.b
	case 'z':
		return true
	}
	if len(a.vals) != len(b.vals) || len(a.keys) != len(b.keys) {
		return false
	}
	for i := range a.keys {
		if !vEqualCPs(a.keys[i], b.keys[i]) {
			return false
		}
	}
	for i := range a.vals {
		if !vJEqual(a.vals[i], b.vals[i]) {
			return false
		}
	}
	return true
}

// vIndexCP: index of the last occurrence of c among the first 60 code points (the type-name prefix), or -1.
func vIndexCP(s []int32, c int32) int {
	r := -1
	for i := 0; i < len(s) && i < 60; i++ {
		if s[i] == c {
			r = i
		}
	}
	return r
}
