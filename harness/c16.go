package log

import "context"

//verif:witness H_C16_lifecycle end
//verif:bound C16 quick every operation sequence of length 1..3 over {Refresh(valid sync or async cfg in one of three routings of the tag: literal on l1, wildcard on l1, wildcard on l1 plus the literal on a second logger), Refresh(invalid, early failure), Refresh(invalid, late failure after rebinding or in the start phase of an async logger), Destroy, log via tag, write via named handle, register tag, obtain handle, log via a tag served by the configured root logger} on the real package globals, real Refresh/Destroy through the reflect shim; worker scheduled at blocking points
//verif:bound C16 thorough sequences of length 1..4
//verif:assume C16 after a Refresh that failed late (configured flag set, nothing registered for Destroy) the harness does not judge whether registration is refused; it does judge that logging neither panics nor blocks and that Destroy returns the system to the unconfigured state

type vLife struct {
	live   bool // a successful Refresh has not been destroyed yet
	failed bool // a Refresh failed late: configured flag set without a registered configuration
	async  bool
	route  int // 0: the tag is listed literally by l1; 1: l1 lists its wildcard; 2: l1 lists the wildcard and l2 the tag itself
}

func vCfg(async bool, badProperty bool) map[string]string { return vCfgRoute(async, badProperty, 0) }

func vCfgRoute(async bool, badProperty bool, route int) map[string]string {
	m := map[string]string{
		// a configured root logger of the same kind serves the tags nobody lists
		"appender.a0.type":            "Rec",
		"logger.root.appenderRef.ref": "a0",
		"appender.a1.type":            "Rec",
		"logger.l1.tags":              "_c16_tag",
		"logger.l1.appenderRef.ref":   "a1",
		"logger.l1.appenderRef.level": "",
	}
	if async {
		m["logger.root.type"] = "AsyncLogger"
		m["logger.root.bufferSize"] = "100"
		m["logger.root.bufferFullPolicy"] = "Block"
		m["logger.l1.type"] = "AsyncLogger"
		m["logger.l1.bufferSize"] = "100"
		m["logger.l1.bufferFullPolicy"] = "Block"
	} else {
		m["logger.root.type"] = "Logger"
		m["logger.l1.type"] = "Logger"
	}
	if route > 0 {
		m["logger.l1.tags"] = "_c16_*"
	}
	if route == 2 {
		// a more specific entry owned by another logger
		m["appender.a2.type"] = "Rec"
		m["logger.l2.type"] = m["logger.l1.type"]
		m["logger.l2.tags"] = "_c16_tag"
		m["logger.l2.appenderRef.ref"] = "a2"
		if async {
			m["logger.l2.bufferSize"] = "100"
			m["logger.l2.bufferFullPolicy"] = "Block"
		}
	}
	if badProperty {
		m["enableCaller"] = "not-a-bool"
	}
	return m
}

func vNoPanic(f func()) (panicked bool) {
	defer func() {
		if recover() != nil {
			panicked = true
		}
	}()
	f()
	return false
}

func H_C16_lifecycle() {
	vOpt("loop", 400)
	vOpt("preempt", 1)
	maxLen := 3
	if vTier() > 0 {
		maxLen = 4
	}
	savedHandles := loggerMap
	loggerMap = map[string]*LoggerWrapper{}
	savedOut := Stdout
	sink := &vSink{}
	Stdout = sink
	tag := RegisterTag("_c16_tag")
	h := GetLogger("l1")
	nExtra := 0
	defer func() {
		Destroy()
		Stdout = savedOut
		loggerMap = savedHandles
		delete(tagRegistry, "_c16_tag")
		delete(tagRegistry, "_c16_new")
		tag.logger, TagAppDef.logger, TagBizDef.logger = nil, nil, nil
		global.init = false
	}()
	var st vLife
	n := 1 + vChoose("len", maxLen)
	for i := 0; i < n; i++ {
		switch vChoose("op", 10) {
		case 9: // log via a tag nobody lists: served by the configured root logger, else the built-in one
			var root *vRecAppender
			before := 0
			if st.live {
				for _, a := range global.appenders {
					if x := a.(*vRecAppender); x.Name == "a0" {
						root = x
					}
				}
				before = root.appends
			}
			nsink := len(sink.writes)
			p := vNoPanic(func() { Warn(context.Background(), TagAppDef, Msg("r")) })
			vAssert(!p, "logging-via-root-routed-tag-never-panics")
			if !st.live && !st.failed {
				vAssert(len(sink.writes) == nsink+1, "unconfigured-logging-goes-to-the-built-in-console-logger")
			}
			if st.live && !st.async {
				vAssert(root.appends == before+1 && len(sink.writes) == nsink, "configured-root-serves-unlisted-tags")
			}
		case 0, 1: // Refresh(valid)
			async := false
			if i > 0 || true {
				async = vChoose("opAsync", 2) == 1
			}
			route := vChoose("opRoute", 3)
			err := Refresh(vCfgRoute(async, false, route))
			if st.live || st.failed {
				vAssert(err != nil, "second-refresh-without-destroy-is-rejected")
			} else {
				vAssert(err == nil, "valid-refresh-succeeds-when-unconfigured")
				if err == nil {
					st.live, st.async, st.route = true, async, route
				}
			}
		case 2: // Refresh(invalid): fails before anything is touched
			err := Refresh(map[string]string{"logger.l1.type": "Logger"})
			vAssert(err != nil, "invalid-configuration-is-an-error")
		case 3: // Refresh(invalid): fails late, after tags were rebound
			var cfg map[string]string
			switch vChoose("lateAsync", 3) {
			case 0:
				cfg = vCfg(false, true)
			case 1:
				cfg = vCfg(true, true)
			default:
				// fails in the start phase: an async logger whose buffer size is below the minimum
				cfg = vCfg(true, false)
				cfg["logger.l1.bufferSize"] = "50"
			}
			err := Refresh(cfg)
			vAssert(err != nil, "late-invalid-configuration-is-an-error")
			if !st.live && !st.failed {
				st.failed = true
			}
		case 4:
			p := vNoPanic(Destroy)
			vAssert(!p, "destroy-never-panics")
			st = vLife{}
		case 5: // log via tag
			var before, beforeOther int
			var rec, other *vRecAppender
			if st.live {
				wantName, otherName := "a1", "a2"
				if st.route == 2 {
					wantName, otherName = "a2", "a1"
				}
				for _, a := range global.appenders {
					if x := a.(*vRecAppender); x.Name == wantName {
						rec = x
					} else if x.Name == otherName {
						other = x
					}
				}
				before = rec.appends
				if other != nil {
					beforeOther = other.appends
				}
			}
			nsink := len(sink.writes)
			lvl := vInt32("level") // arbitrary level code; every configured range here is [NONE,MAX)
			enabled := 0 <= lvl && lvl < 999
			p := vNoPanic(func() { Record(context.Background(), Level{code: lvl, name: "EV"}, tag, 1, Msg("m")) })
			vAssert(!p, "logging-via-tag-never-panics")
			if !st.live && !st.failed {
				if enabled {
					vAssert(len(sink.writes) == nsink+1, "unconfigured-logging-goes-to-the-built-in-console-logger")
				} else {
					vAssert(len(sink.writes) == nsink, "disabled-level-emits-nothing")
				}
			}
			if st.live && !st.async {
				if enabled {
					vAssert(rec.appends == before+1 && len(sink.writes) == nsink, "configured-logging-routes-as-configured")
					vAssert(other == nil || other.appends == beforeOther, "configured-logging-reaches-no-other-logger")
				} else {
					vAssert(rec.appends == before && len(sink.writes) == nsink, "disabled-level-emits-nothing")
				}
			}
		case 6: // write via the named handle
			p := vNoPanic(func() { h.Write([]byte("raw\n")) })
			vAssert(!p, "writing-via-handle-never-panics")
		case 7:
			p := vNoPanic(func() { RegisterTag("_c16_new") })
			if st.live {
				vAssert(p, "tag-registration-refused-while-live")
			} else if !st.failed {
				vAssert(!p, "tag-registration-possible-when-unconfigured")
			}
		default:
			p := vNoPanic(func() { GetLogger("l1") })
			if st.live {
				vAssert(p, "handle-registration-refused-while-live")
			} else if !st.failed {
				vAssert(!p, "handle-registration-possible-when-unconfigured")
			}
			nExtra++
		}
	}
	vReach("end")
}

//verif:witness H_C16_reconfigure end
//verif:bound C16 all reconfiguration: Refresh(X), log, Destroy, Refresh(Y), log via tag / via a root-served tag / via the handle, Destroy, for every pair X, Y of the six valid configurations (sync or async x three routings of the tag); after the second Refresh everything routes as Y says, nothing of X survives
func H_C16_reconfigure() {
	vOpt("loop", 400)
	vOpt("preempt", 1)
	savedHandles := loggerMap
	loggerMap = map[string]*LoggerWrapper{}
	savedOut := Stdout
	sink := &vSink{}
	Stdout = sink
	tag := RegisterTag("_c16_tag")
	h := GetLogger("l1")
	defer func() {
		Destroy()
		Stdout = savedOut
		loggerMap = savedHandles
		delete(tagRegistry, "_c16_tag")
		tag.logger, TagAppDef.logger, TagBizDef.logger = nil, nil, nil
		global.init = false
	}()
	for round := 0; round < 2; round++ {
		async := vChoose("async", 2) == 1
		route := vChoose("route", 3)
		err := Refresh(vCfgRoute(async, false, route))
		vAssert(err == nil, "valid-refresh-succeeds-when-unconfigured")
		if err != nil {
			return
		}
		apps := map[string]*vRecAppender{}
		for _, a := range global.appenders {
			x := a.(*vRecAppender)
			apps[x.Name] = x
		}
		Info(context.Background(), tag, Msg("t"))
		Warn(context.Background(), TagAppDef, Msg("r"))
		h.Write([]byte("raw\n"))
		vAssert(!vNoPanic(Destroy), "destroy-never-panics") // stops (and so flushes) async loggers
		wantTag := "a1"
		if route == 2 {
			wantTag = "a2"
		}
		for name, x := range apps {
			wantEvents, wantRaw := 0, 0
			if name == wantTag {
				wantEvents++
			}
			if name == "a0" {
				wantEvents++ // the configured root logger serves the tags nobody lists
			}
			if name == "a1" {
				wantRaw = 1 // the handle 'l1'
			}
			vAssert(x.appends == wantEvents, "tag-routes-as-the-live-configuration-says")
			vAssert(x.writes == wantRaw, "handle-writes-to-the-logger-of-its-name")
			vAssert(x.started == 1 && x.stopped >= 1, "appenders-started-once-and-stopped-in-every-cycle")
		}
		vAssert(len(sink.writes) == 0, "nothing-falls-through-to-the-built-in-logger-while-configured")
	}
	vReach("end")
}
