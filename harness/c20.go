package log

import (
	"context"
	"time"
)

//verif:witness H_C20_writethrough end
//verif:bound C20 all sync logger -> file / rolling-file / console appender, and the rolling-file logger in synchronous mode (3 buffer-full policies, which must not matter), text and JSON layout, with and without a logger-level layout; 1..3 acknowledged calls at TRACE / DEBUG / INFO / ERROR level (every combination); the target's content is inspected immediately after each call returns (every crash point between acknowledged calls)
//verif:assume C20 os.File.Write hands its bytes to the kernel before returning (no user-space buffering in os.File: standard-library contract); what the kernel does afterwards is not modelled
//verif:assume C20 goroutine interleavings of several writers are covered by C03; here calls are issued one at a time
//verif:engine-only H_C20_writethrough

func H_C20_writethrough() {
	vOpt("loop", 400)
	root := vFSRoot()
	defer vFSCleanup()
	dir := root + "/logs"
	vFSMkdir(dir)
	var lay Layout = &TextLayout{BaseLayout{FileLineLength: 48}}
	if vChoose("layout", 2) == 1 {
		lay = &JSONLayout{BaseLayout{FileLineLength: 48}}
	}
	var app Appender
	sink := &vSink{}
	saved := Stdout
	defer func() { Stdout = saved }()
	kind := vChoose("appender", 4)
	var rl *RollingFileLogger
	switch kind {
	case 3:
		// the rolling-file LOGGER in synchronous mode, whatever its (then irrelevant) buffer settings
		rl = &RollingFileLogger{LoggerBase: LoggerBase{Name: "r", Level: LevelRange{MinLevel: NoneLevel, MaxLevel: MaxLevel}}, FileDir: dir, FileName: "r",
			Rotation: TimeRotation{Interval: time.Hour}, MaxAge: 168, AsyncWrite: false, BufferSize: 100, BufferFullPolicy: BufferFullPolicy(vChoose("policy", 3))}
		if vChoose("loggerLayout", 2) == 1 {
			rl.Layout = lay
		}
		if err := rl.Start(); err != nil {
			panic(err)
		}
		kind = 1
	case 0:
		app = &FileAppender{Layout: lay, FileDir: dir, FileName: "f.log"}
	case 1:
		app = &RollingFileAppender{Layout: lay, FileDir: dir, FileName: "r", Rotation: TimeRotation{Interval: time.Hour}, MaxAge: 168}
	default:
		Stdout = sink
		app = &ConsoleAppender{Layout: lay}
	}
	tag := &Tag{tag: "_t_x"}
	if rl != nil {
		tag.logger = rl
	} else {
		if err := app.Start(); err != nil {
			panic(err)
		}
		logger := &SyncLogger{LoggerBase: LoggerBase{Name: "s", Level: LevelRange{MinLevel: NoneLevel, MaxLevel: MaxLevel}}}
		if vChoose("loggerLayout", 2) == 1 {
			logger.Layout = lay
		}
		logger.AppenderRefs.AppenderRefs = []*AppenderRef{{Appender: app, Level: LevelRange{MinLevel: NoneLevel, MaxLevel: MaxLevel}}}
		tag.logger = logger
	}
	n := 1 + vChoose("calls", 3)
	markers := [3]string{"first-line", "second-line", "third-line"}
	levels := [4]Level{TraceLevel, DebugLevel, InfoLevel, ErrorLevel}
	for i := 0; i < n; i++ {
		// every level is acknowledged alike: diagnostic lines are not held back either
		Record(context.Background(), levels[vChoose("level", 4)], tag, 1, Msg(markers[i]))
		// crash point: the call has returned; what is in the target now?
		var content []byte
		switch kind {
		case 0:
			content, _ = vFSRead(dir, "f.log")
		case 1:
			names := vFSNames(dir)
			vAssert(len(names) == 1, "one-rolling-file")
			if len(names) == 1 {
				content, _ = vFSRead(dir, names[0])
			}
		default:
			for _, w := range sink.writes {
				content = append(content, w...)
			}
		}
		vAssert(len(content) > 0 && content[len(content)-1] == '\n', "acknowledged-line-complete-in-target")
		lines := 0
		for _, c := range content {
			if c == '\n' {
				lines++
			}
		}
		vAssert(lines == i+1, "one-line-per-acknowledged-call")
		for j := 0; j <= i; j++ {
			vAssert(vContains(content, markers[j]), "every-acknowledged-line-is-in-the-target")
		}
	}
	if rl != nil {
		rl.Stop()
	} else {
		app.Stop()
	}
	vReach("end")
}

//verif:witness H_C20_concurrent end
//verif:bound C20 all concurrent callers: 3 goroutines x 1 call through one sync logger to a console (slow stream), file or rolling-file appender, pre-emption at every visible operation (atomics, mutexes, file writes, yields) with at most 2 (thorough: 4) pre-emptive switches; immediately after each call returns, its complete line must already be in the target
//verif:engine-only H_C20_concurrent

// H_C20_concurrent: acknowledged means written, also when calls overlap.
func H_C20_concurrent() {
	vOpt("loop", 400)
	vOpt("schedall", 1)
	if vTier() > 0 {
		vOpt("preempt", 4)
	} else {
		vOpt("preempt", 2)
	}
	root := vFSRoot()
	defer vFSCleanup()
	dir := root + "/logs"
	vFSMkdir(dir)
	savedCap := BufferCap.Load()
	BufferCap.Store(vInt32("bufferCap")) // lines below, at and beyond the buffer-reuse cap
	defer BufferCap.Store(savedCap)
	lay := &TextLayout{BaseLayout{FileLineLength: 48}}
	sink := &vSink{slow: true}
	saved := Stdout
	defer func() { Stdout = saved }()
	var app Appender
	kind := vChoose("appender", 3)
	switch kind {
	case 0:
		Stdout = sink
		app = &ConsoleAppender{Layout: lay}
	case 1:
		app = &FileAppender{Layout: lay, FileDir: dir, FileName: "f.log"}
	default:
		app = &RollingFileAppender{Layout: lay, FileDir: dir, FileName: "r", Rotation: TimeRotation{Interval: time.Hour}, MaxAge: 168}
	}
	if err := app.Start(); err != nil {
		panic(err)
	}
	all := LevelRange{MinLevel: NoneLevel, MaxLevel: MaxLevel}
	logger := &SyncLogger{LoggerBase: LoggerBase{Name: "s", Level: all}}
	logger.AppenderRefs.AppenderRefs = []*AppenderRef{{Appender: app, Level: all}}
	tag := &Tag{tag: "_t_x", logger: logger}
	markers := [3]string{"line-one", "line-two", "line-three"}
	target := func() []byte {
		if kind == 0 {
			var c []byte
			for _, w := range sink.writes {
				c = append(c, w...)
			}
			return c
		}
		if kind == 2 {
			var c []byte
			for _, n := range vFSNames(dir) {
				x, _ := vFSRead(dir, n)
				c = append(c, x...)
			}
			return c
		}
		c, _ := vFSRead(dir, "f.log")
		return c
	}
	ok := [3]bool{}
	done := make(chan int, 3)
	for g := 0; g < 3; g++ {
		go func(g int) {
			Info(context.Background(), tag, Msg(markers[g]))
			// crash point: this call has returned
			ok[g] = vContains(target(), markers[g]+"\n")
			done <- 1
		}(g)
	}
	for g := 0; g < 3; g++ {
		<-done
	}
	for g := 0; g < 3; g++ {
		vAssert(ok[g], "acknowledged-line-is-in-the-target-when-the-call-returns")
	}
	app.Stop()
	vReach("end")
}

//verif:witness H_C20_faulty end
//verif:bound C20 all rolling appender under an arbitrary non-decreasing clock (interval 1 s, readings within 1000 s) with a fault bit on every OpenFile after Start: 1..3 acknowledged calls; after each, the complete line is in one of the appender's files
//verif:engine-only H_C20_faulty

// H_C20_faulty: an acknowledged line is in the target also when rotations fail.
func H_C20_faulty() {
	vOpt("loop", 400)
	vClockMode(1)
	vClockWindow(1000)
	root := vFSRoot()
	defer vFSCleanup()
	dir := root + "/logs"
	vFSMkdir(dir)
	lay := &TextLayout{BaseLayout{FileLineLength: 48}}
	app := &RollingFileAppender{Layout: lay, FileDir: dir, FileName: "r", Rotation: TimeRotation{Interval: time.Second}, MaxAge: 168}
	if err := app.Start(); err != nil {
		panic(err)
	}
	vFaults(1, 0)
	all := LevelRange{MinLevel: NoneLevel, MaxLevel: MaxLevel}
	logger := &SyncLogger{LoggerBase: LoggerBase{Name: "s", Level: all}}
	logger.AppenderRefs.AppenderRefs = []*AppenderRef{{Appender: app, Level: all}}
	tag := &Tag{tag: "_t_x", logger: logger}
	hook := time.Unix(1700000000, 0)
	TimeNow = func(ctx context.Context) time.Time { return hook }
	defer func() { TimeNow = nil }()
	n := 1 + vChoose("calls", 3)
	markers := [3]string{"first-line", "second-line", "third-line"}
	for i := 0; i < n; i++ {
		Info(context.Background(), tag, Msg(markers[i]))
		var content []byte
		for _, nm := range vFSNames(dir) {
			c, _ := vFSRead(dir, nm)
			content = append(content, c...)
		}
		for j := 0; j <= i; j++ {
			vAssert(vContains(content, markers[j]+"\n"), "every-acknowledged-line-is-in-a-file")
		}
	}
	vFaults(0, 0)
	app.Stop()
	vReach("end")
}

//verif:witness H_C20_retention end
//verif:bound C20 all rolling appender under the concrete clock (interval 1 h, max age 1 / 12 / 24 / 168 h): three acknowledged calls 0 or 1700 s apart (so an hour boundary may be crossed and the retention scan runs to completion after every call, but nothing is older than the smallest max age): after each call every acknowledged line is in the appender's files
//verif:engine-only H_C20_retention
func H_C20_retention() {
	vOpt("loop", 400)
	vOpt("preempt", 1)
	root := vFSRoot()
	defer vFSCleanup()
	dir := root + "/logs"
	vFSMkdir(dir)
	maxAge := [4]int32{1, 12, 24, 168}[vChoose("maxAge", 4)]
	lay := &TextLayout{BaseLayout{FileLineLength: 48}}
	app := &RollingFileAppender{Layout: lay, FileDir: dir, FileName: "r", Rotation: TimeRotation{Interval: time.Hour}, MaxAge: maxAge}
	if err := app.Start(); err != nil {
		panic(err)
	}
	all := LevelRange{MinLevel: NoneLevel, MaxLevel: MaxLevel}
	logger := &SyncLogger{LoggerBase: LoggerBase{Name: "s", Level: all}}
	logger.AppenderRefs.AppenderRefs = []*AppenderRef{{Appender: app, Level: all}}
	tag := &Tag{tag: "_t_x", logger: logger}
	markers := [3]string{"first-line", "second-line", "third-line"}
	for i := 0; i < 3; i++ {
		vClockAdvance([2]int{0, 1700}[vChoose("gap", 2)])
		Info(context.Background(), tag, Msg(markers[i]))
		vDrain() // a retention scan started by a rotation runs to completion
		var content []byte
		for _, n := range vFSNames(dir) {
			c, _ := vFSRead(dir, n)
			content = append(content, c...)
		}
		for j := 0; j <= i; j++ {
			vAssert(vContains(content, markers[j]+"\n"), "acknowledged-line-survives-rotation-and-retention")
		}
	}
	app.Stop()
	vReach("end")
}
