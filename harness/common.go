package log

import "context"

// Recording appender used by the harnesses (an ordinary Appender implementation).
type vRecAppender struct {
	AppenderBase
	appends   int
	writes    int
	levels    []int32  // level code of each appended event
	events    []Event  // copies of the appended events
	raw       [][]byte // copy of each raw write
	rawAlias  [][]byte // the slices as received (to observe later mutation)
	slow      bool     // yield to the scheduler inside Append/Write
	startErr  error
	started   int
	stopped   int
	order     *[]int // shared delivery log (appender index per delivery)
	seq       []int  // item identities in arrival order (event: Line, raw write: first byte)
	idx       int
}

func (c *vRecAppender) Start() error { c.started++; return c.startErr }
func (c *vRecAppender) Stop()        { c.stopped++ }
func (c *vRecAppender) Append(e *Event) {
	if c.slow {
		vYield()
	}
	c.appends++
	c.levels = append(c.levels, e.Level.code)
	c.events = append(c.events, *e)
	c.seq = append(c.seq, e.Line)
	if c.order != nil {
		*c.order = append(*c.order, c.idx)
	}
}
func (c *vRecAppender) Write(b []byte) {
	if c.slow {
		vYield()
	}
	c.writes++
	c.raw = append(c.raw, append([]byte(nil), b...))
	c.rawAlias = append(c.rawAlias, b)
	if len(b) > 0 {
		c.seq = append(c.seq, int(b[0]))
	}
}

// vCtxT is a distinguishable context value (identity is what the hooks must receive).
type vCtxT struct {
	context.Context
	id int
}

var vCtx context.Context = vCtxT{context.Background(), 7}

func vBytesEqual(a, b []byte) bool {
	if len(a) != len(b) {
		return false
	}
	for i := range a {
		if a[i] != b[i] {
			return false
		}
	}
	return true
}

func vNop() {}
