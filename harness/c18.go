package log

//verif:witness H_C18_valid end
//verif:witness H_C18_long end
//verif:witness H_C18_registry registered rejected
//verif:bound C18 quick isValidTag vs reference recogniser on every byte string of length 0..7; structured strings of total length 34..38 (1..5 segments, optional leading underscore, one arbitrary byte at 5 positions); registry harness on every byte string of length 0..5
//verif:bound C18 thorough every byte string of length 0..11; structured strings of total length 34..38; registry harness on length 0..6
//verif:assume C18 lengths between the exhaustive bound and 34 with arbitrary underscore placement are outside the claim (no branch of isValidTag distinguishes them; stated, not proved)

// vSpecTag: the documented tag language, written from the property statement.
func vSpecTag(s string) bool {
	if len(s) < 3 || len(s) > 36 {
		return false
	}
	i, segs := 0, 0
	if s[0] == '_' {
		i = 1
	}
	for i < len(s) {
		j := i
		for j < len(s) && (('a' <= s[j] && s[j] <= 'z') || ('0' <= s[j] && s[j] <= '9')) {
			j++
		}
		if j == i {
			return false // empty segment or foreign byte
		}
		segs++
		i = j
		if i < len(s) {
			if s[i] != '_' || i+1 == len(s) {
				return false
			}
			i++
		}
	}
	return 1 <= segs && segs <= 4
}

func H_C18_valid() {
	maxN := 7
	if vTier() > 0 {
		maxN = 11
	}
	n := vChoose("len", maxN+1)
	s := vString("tag", n)
	got := isValidTag(s)
	vObserve("accepted", got)
	want := vSpecTag(s)
	vAssert(got == want, "accepted-iff-in-documented-language")
	vReach("end")
}

// H_C18_long: strings around the upper length limit with chosen segment structure: one
// arbitrary byte at a chosen position, the other non-separator bytes are 'a'.
func H_C18_long() {
	vOpt("loop", 80)
	total := 34 + vChoose("total", 5) // 34..38
	k := 1 + vChoose("segments", 5)   // 1..5
	lead := vChoose("lead", 2)
	pos := vChoose("pos", 5) // which quintile holds the arbitrary byte
	b := make([]byte, 0, 40)
	if lead == 1 {
		b = append(b, '_')
	}
	for seg := 0; seg < k; seg++ {
		var l int
		if seg < k-1 {
			l = 1 + vChoose("seglen", 2)
		} else {
			l = total - len(b)
		}
		if l < 1 {
			return
		}
		for j := 0; j < l; j++ {
			b = append(b, 'a')
		}
		if seg < k-1 {
			b = append(b, '_')
		}
	}
	at := pos * (len(b) - 1) / 4
	b[at] = vByte("c")
	s := string(b)
	got := isValidTag(s)
	want := vSpecTag(s)
	vAssert(got == want, "accepted-iff-in-documented-language-near-length-limit")
	vReach("end")
}

func vTryRegister(s string) (t *Tag, panicked bool) {
	defer func() {
		if r := recover(); r != nil {
			panicked = true
		}
	}()
	return RegisterTag(s), false
}

func H_C18_registry() {
	maxN := 5
	if vTier() > 0 {
		maxN = 6
	}
	n := vChoose("len", maxN+1)
	s := vString("tag", n)
	before := len(tagRegistry)
	_, had := tagRegistry[s]
	vAssert(len(GetAllTags()) == before, "all-tags-before-registration")
	t1, p1 := vTryRegister(s)
	if !vSpecTag(s) {
		vAssert(p1, "invalid-name-panics")
		vAssert(len(tagRegistry) == before, "invalid-name-registers-nothing")
		vReach("rejected")
		return
	}
	vAssert(!p1, "valid-name-accepted")
	t2, p2 := vTryRegister(s)
	vAssert(!p2 && t1 == t2, "registering-twice-yields-same-tag")
	if had {
		vAssert(len(tagRegistry) == before, "re-registration-adds-nothing")
	} else {
		vAssert(len(tagRegistry) == before+1, "registration-adds-exactly-one")
	}
	// the list of all tags contains exactly the registered names
	all := GetAllTags()
	vAssert(len(all) == len(tagRegistry), "all-tags-size")
	found := false
	for _, x := range all {
		if x == s {
			found = true
		}
		_, ok := tagRegistry[x]
		vAssert(ok, "all-tags-only-registered")
	}
	vAssert(found, "all-tags-contains-new-name")
	// helper-built names from single-segment valid parts are accepted
	vReach("registered")
}

//verif:witness H_C18_helpers end
func H_C18_helpers() {
	// parts: 1..3 bytes of [a-z0-9]
	part := func(name string) string {
		n := 1 + vChoose(name+"len", 3)
		p := vString(name, n)
		for i := 0; i < n; i++ {
			c := p[i]
			vAssume(('a' <= c && c <= 'z') || ('0' <= c && c <= '9'))
		}
		return p
	}
	sub := part("sub")
	withAction := vChoose("action", 2) == 1
	act := ""
	if withAction {
		act = part("act")
	}
	which := vChoose("helper", 3)
	var t *Tag
	var panicked bool
	func() {
		defer func() {
			if recover() != nil {
				panicked = true
			}
		}()
		switch which {
		case 0:
			t = RegisterAppTag(sub, act)
		case 1:
			t = RegisterBizTag(sub, act)
		default:
			t = RegisterRPCTag(sub, act)
		}
	}()
	vAssert(!panicked && t != nil, "helper-built-name-accepted")
	if t != nil {
		main := [3]string{"app", "biz", "rpc"}[which]
		want := "_" + main + "_" + sub
		if withAction {
			want += "_" + act
		}
		vAssert(t.tag == want, "helper-built-name")
	}
	vReach("end")
}
