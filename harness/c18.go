package log

//verif:witness H_C18_valid end
//verif:witness H_C18_long end
//verif:witness H_C18_registry registered rejected
//verif:bound C18 quick isValidTag vs reference recogniser on every byte string of length 0..7; structured strings of total length 34..38 (1..5 segments, optional leading underscore, one arbitrary byte at 5 positions); registry harness on every byte string of length 0..5
//verif:bound C18 thorough every byte string of length 0..11; structured strings of total length 34..38; registry harness on length 0..6
//verif:assume C18 lengths between the exhaustive bound and 34 with arbitrary underscore placement are outside the claim (no branch of isValidTag distinguishes them; stated, not proved)

// vSpecTag: the documented tag language, written from the property statement.
func vSpecTag(s string) bool {
	if len(s) < 3 || len(s) > 36 {
		return false
	}
	i, segs := 0, 0
	if s[0] == '_' {
		i = 1
	}
	for i < len(s) {
		j := i
		for j < len(s) && (('a' <= s[j] && s[j] <= 'z') || ('0' <= s[j] && s[j] <= '9')) {
			j++
		}
		if j == i {
			return false // empty segment or foreign byte
		}
		segs++
		i = j
		if i < len(s) {
			if s[i] != '_' || i+1 == len(s) {
				return false
			}
			i++
		}
	}
	return 1 <= segs && segs <= 4
}

func H_C18_valid() {
	maxN := 7
	if vTier() > 0 {
		maxN = 11
	}
	n := vChoose("len", maxN+1)
	s := vString("tag", n)
	got := isValidTag(s)
	vObserve("accepted", got)
	want := vSpecTag(s)
	vAssert(got == want, "accepted-iff-in-documented-language")
	vReach("end")
}

// H_C18_long: strings around the upper length limit with chosen segment structure: one
// arbitrary byte at a chosen position, the other non-separator bytes are 'a'.
func H_C18_long() {
	vOpt("loop", 80)
	total := 34 + vChoose("total", 5) // 34..38
	k := 1 + vChoose("segments", 5)   // 1..5
	lead := vChoose("lead", 2)
	pos := vChoose("pos", 5) // which quintile holds the arbitrary byte
	b := make([]byte, 0, 40)
	if lead == 1 {
		b = append(b, '_')
	}
	for seg := 0; seg < k; seg++ {
		var l int
		if seg < k-1 {
			l = 1 + vChoose("seglen", 2)
		} else {
			l = total - len(b)
		}
		if l < 1 {
			return
		}
		for j := 0; j < l; j++ {
			b = append(b, 'a')
		}
		if seg < k-1 {
			b = append(b, '_')
		}
	}
	at := pos * (len(b) - 1) / 4
	b[at] = vByte("c")
	s := string(b)
	got := isValidTag(s)
	want := vSpecTag(s)
	vAssert(got == want, "accepted-iff-in-documented-language-near-length-limit")
	vReach("end")
}

func vTryRegister(s string) (t *Tag, panicked bool) {
	defer func() {
		if r := recover(); r != nil {
			panicked = true
		}
	}()
	return RegisterTag(s), false
}

func H_C18_registry() {
	maxN := 5
	if vTier() > 0 {
		maxN = 6
	}
	n := vChoose("len", maxN+1)
	s := vString("tag", n)
	before := len(tagRegistry)
	_, had := tagRegistry[s]
	vAssert(len(GetAllTags()) == before, "all-tags-before-registration")
	t1, p1 := vTryRegister(s)
	if !vSpecTag(s) {
		vAssert(p1, "invalid-name-panics")
		vAssert(len(tagRegistry) == before, "invalid-name-registers-nothing")
		vReach("rejected")
		return
	}
	vAssert(!p1, "valid-name-accepted")
	t2, p2 := vTryRegister(s)
	vAssert(!p2 && t1 == t2, "registering-twice-yields-same-tag")
	if had {
		vAssert(len(tagRegistry) == before, "re-registration-adds-nothing")
	} else {
		vAssert(len(tagRegistry) == before+1, "registration-adds-exactly-one")
	}
	// the list of all tags contains exactly the registered names
	all := GetAllTags()
	vAssert(len(all) == len(tagRegistry), "all-tags-size")
	found := false
	for _, x := range all {
		if x == s {
			found = true
		}
		_, ok := tagRegistry[x]
		vAssert(ok, "all-tags-only-registered")
	}
	vAssert(found, "all-tags-contains-new-name")
	// helper-built names from single-segment valid parts are accepted
	vReach("registered")
}

//verif:witness H_C18_helpers end
func H_C18_helpers() {
	// parts: 1..3 bytes of [a-z0-9]
	part := func(name string) string {
		n := 1 + vChoose(name+"len", 3)
		p := vString(name, n)
		for i := 0; i < n; i++ {
			c := p[i]
			vAssume(('a' <= c && c <= 'z') || ('0' <= c && c <= '9'))
		}
		return p
	}
	sub := part("sub")
	withAction := vChoose("action", 2) == 1
	act := ""
	if withAction {
		act = part("act")
	}
	which := vChoose("helper", 3)
	var t *Tag
	var panicked bool
	func() {
		defer func() {
			if recover() != nil {
				panicked = true
			}
		}()
		switch which {
		case 0:
			t = RegisterAppTag(sub, act)
		case 1:
			t = RegisterBizTag(sub, act)
		default:
			t = RegisterRPCTag(sub, act)
		}
	}()
	vAssert(!panicked && t != nil, "helper-built-name-accepted")
	if t != nil {
		main := [3]string{"app", "biz", "rpc"}[which]
		want := "_" + main + "_" + sub
		if withAction {
			want += "_" + act
		}
		vAssert(t.tag == want, "helper-built-name")
	}
	vReach("end")
}

//verif:witness H_C18_nonascii end
//verif:bound C18 all names containing well-formed multi-byte UTF-8 letters/digits (Latin-1, Cyrillic, Greek, Arabic-Indic and full-width digits, CJK) and lone high bytes at the start, middle and end of otherwise valid names: all rejected
// H_C18_nonascii: the alphabet is ASCII lowercase letters, digits and underscore.
func H_C18_nonascii() {
	bad := [10]string{"_caf\u00e9", "stra\u00dfe_log", "_\u0431\u0438\u0437_def", "app_\u0661\u0662", "app_\uff11\uff12", "\u03b1\u03b2\u03b3", "app_\u4e2d", "ab\xff", "\xc3abc", "a\xa0b_c"}
	s := bad[vChoose("name", 10)]
	vAssert(!isValidTag(s), "non-ascii-name-rejected")
	_, p := vTryRegister(s)
	vAssert(p, "registering-a-non-ascii-name-panics")
	_, ok := tagRegistry[s]
	vAssert(!ok, "nothing-registered")
	vReach("end")
}

//verif:witness H_C18_lifecycle end
//verif:bound C18 all the list of all tags across configuration lifecycles: GetAllTags before / while live / after Destroy / after registering another name / after a second Refresh always equals the registered names (real Refresh and Destroy)
// H_C18_lifecycle: GetAllTags never goes stale.
func H_C18_lifecycle() {
	vOpt("loop", 400)
	savedHandles := loggerMap
	loggerMap = map[string]*LoggerWrapper{}
	defer func() {
		Destroy()
		global.init = false
		loggerMap = savedHandles
		delete(tagRegistry, "_c18_one")
		delete(tagRegistry, "_c18_two")
		TagAppDef.logger, TagBizDef.logger = nil, nil
	}()
	same := func(label string) {
		all := GetAllTags()
		vAssert(len(all) == len(tagRegistry), label)
		for _, n := range all {
			_, ok := tagRegistry[n]
			vAssert(ok, label)
		}
	}
	cfg := map[string]string{"appender.a1.type": "Rec", "logger.l1.type": "Logger", "logger.l1.tags": "_c18_one", "logger.l1.appenderRef.ref": "a1"}
	RegisterTag("_c18_one")
	if vChoose("early", 2) == 1 {
		same("all-tags-before-refresh")
	}
	if err := Refresh(cfg); err != nil {
		panic(err)
	}
	if vChoose("live", 2) == 1 {
		same("all-tags-while-live")
	}
	Destroy()
	RegisterTag("_c18_two")
	same("all-tags-after-destroy-and-new-registration")
	if err := Refresh(cfg); err != nil {
		panic(err)
	}
	same("all-tags-after-second-refresh")
	vReach("end")
}

//verif:witness H_C18_helpers_long accepted refused
//verif:bound C18 all helper-built names at the length limit: app/biz/rpc helper x sub-type of the length that makes the whole name 35, 36 or 37 characters x no action / action of 1 or 5 characters: the helper accepts exactly when the name has at most 36 characters, i.e. exactly when RegisterTag accepts the identical string
func H_C18_helpers_long() {
	vOpt("loop", 200)
	total := 35 + vChoose("total", 3)
	alen := [3]int{0, 1, 5}[vChoose("action", 3)]
	slen := total - 5
	if alen > 0 {
		slen -= 1 + alen
	}
	mk := func(name string, n int) string {
		b := make([]byte, n)
		for i := range b {
			b[i] = 'a'
		}
		c := vByte(name)
		vAssume(('a' <= c && c <= 'z') || ('0' <= c && c <= '9'))
		b[n-1] = c
		return string(b)
	}
	sub := mk("sub", slen)
	act := ""
	if alen > 0 {
		act = mk("act", alen)
	}
	which := vChoose("helper", 3)
	main := [3]string{"app", "biz", "rpc"}[which]
	want := "_" + main + "_" + sub
	if alen > 0 {
		want += "_" + act
	}
	var t *Tag
	panicked := false
	func() {
		defer func() {
			if recover() != nil {
				panicked = true
			}
		}()
		switch which {
		case 0:
			t = RegisterAppTag(sub, act)
		case 1:
			t = RegisterBizTag(sub, act)
		default:
			t = RegisterRPCTag(sub, act)
		}
	}()
	defer delete(tagRegistry, want)
	if total <= 36 {
		vAssert(!panicked && t != nil && t.tag == want, "helper-built-name-of-valid-length-accepted")
		vReach("accepted")
	} else {
		vAssert(panicked, "helper-built-name-beyond-36-characters-refused")
		_, registered := tagRegistry[want]
		vAssert(!registered, "refused-name-registers-nothing")
		vReach("refused")
	}
}
