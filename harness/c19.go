package log

import (
	"errors"
	"io"
	"time"
)

//verif:witness H_C19_rolling end
//verif:witness H_C19_others end
//verif:bound C19 quick rolling appender, one writer, 1..3 writes under arbitrary non-decreasing clock readings (interval 1 s / 10 min); every OpenFile after Start and every Write may fail (fault bit per call, path-split)
//verif:bound C19 thorough 1..5 writes, otherwise as quick
//verif:bound C19 all other appenders: file appender whose Start failed / whose file is closed; console stream that fails, makes no progress or writes short; rolling appender on a missing directory (writes and the retention scan); file and rolling-file appender on a target that opens but rejects every write (full disk): the calls return, nothing panics
//verif:assume C19 a failing OpenFile returns (nil, error), a failing Write returns an error and writes nothing (os.File contract); faults of the directory listing/removal are not modelled
//verif:engine-only H_C19_rolling
//verif:engine-only H_C19_others

func H_C19_rolling() {
	vOpt("loop", 200)
	vClockMode(1)
	root := vFSRoot()
	defer vFSCleanup()
	dir := root + "/logs"
	vFSMkdir(dir)
	iv := [2]time.Duration{time.Second, 10 * time.Minute}[vChoose("interval", 2)]
	app := &RollingFileAppender{FileDir: dir, FileName: "r", Rotation: TimeRotation{Interval: iv}, MaxAge: 168}
	m := &vRollModel{interval: int64(iv / time.Second)}
	r := vClockCount()
	if err := app.Start(); err != nil {
		panic(err)
	}
	m.open(r, vClockReading(r))
	vFaults(1, 1)
	maxW := 3
	if vTier() > 0 {
		maxW = 5
	}
	k := 1 + vChoose("writes", maxW)
	next := byte('A')
	for i := 0; i < k; i++ {
		p := []byte{next, '\n'}
		next++
		r = vClockCount()
		attempts, files, writes, wfaults := vFSOpenAttempts(), len(vFSNames(dir)), vFSWriteCount(), vFSWriteFaults()
		app.Write(p) // must return normally whatever fails
		t := vClockReading(r)
		crossed := m.trunc(t) > m.curr
		if crossed {
			vAssert(vFSOpenAttempts() == attempts+1, "creation-attempted-at-each-boundary")
			m.curr = m.trunc(t)
			if len(vFSNames(dir)) > files {
				m.files = append(m.files, vRollExpect{created: r})
			}
		} else {
			vAssert(vFSOpenAttempts() == attempts, "no-creation-attempt-inside-an-interval")
		}
		if vFSWriteFaults() == wfaults {
			// no write fault was injected: the payload must have been written (to the new file,
			// or to the file already held when the creation failed)
			vAssert(vFSWriteCount() == writes+1, "payload-written-unless-the-write-itself-failed")
		}
		if vFSWriteCount() > writes {
			f := &m.files[len(m.files)-1]
			f.content = append(f.content, p...)
		}
	}
	vFaults(0, 0)
	app.Stop()
	vCheckRollFiles(dir, app, m)
	vReach("end")
}

type vFailSink struct {
	n    int
	mode int // 0 error, 1 (0, nil), 2 (0, io.ErrShortWrite), 3 half the bytes and nil
}

func (s *vFailSink) Write(b []byte) (int, error) {
	s.n++
	if s.n > 1000 {
		panic("sink called more than 1000 times for two writes: the appender does not return")
	}
	switch s.mode {
	case 1:
		return 0, nil
	case 2:
		return 0, io.ErrShortWrite
	case 3:
		return len(b) / 2, nil
	}
	return 0, errors.New("sink failure")
}

// H_C19_others: file appender whose Start failed or whose file is closed, console appender with a stream that fails, makes no progress ((0, nil) or (0, io.ErrShortWrite)) or writes short.
func H_C19_others() {
	root := vFSRoot()
	defer vFSCleanup()
	dir := root + "/logs"
	e := &Event{Level: InfoLevel, Time: vFixedTime, File: "f.go", Line: 1, Tag: "_t_x", Fields: []Field{Msg("m")}}
	lay := &TextLayout{BaseLayout{FileLineLength: 48}}
	switch vChoose("case", 6) {
	case 4, 5: // a target that opens but rejects every write (full disk): file and rolling-file appender
		vFSMkdir(dir)
		var app Appender = &FileAppender{Layout: lay, FileDir: dir, FileName: "f.log"}
		if vChoose("rolling", 2) == 1 {
			app = &RollingFileAppender{Layout: lay, FileDir: dir, FileName: "r", Rotation: TimeRotation{Interval: time.Second}, MaxAge: 1}
		}
		if err := app.Start(); err != nil {
			panic(err)
		}
		vFaults(0, 2)
		app.Append(e) // must return (an endless retry is the outcome DIVERGE)
		app.Write([]byte("x"))
		vFaults(0, 0)
		app.Stop()
		vAssert(vFSOpenFDs() == 0, "no-descriptor-left-open")
	case 0: // missing directory: Start fails, later use must not panic
		fa := &FileAppender{Layout: lay, FileDir: dir, FileName: "f.log"}
		err := fa.Start()
		vAssert(err != nil, "start-reports-missing-directory")
		fa.Append(e)
		fa.Write([]byte("x"))
		fa.Stop()
	case 1: // closed file
		vFSMkdir(dir)
		fa := &FileAppender{Layout: lay, FileDir: dir, FileName: "f.log"}
		if err := fa.Start(); err != nil {
			panic(err)
		}
		fa.Stop()
		fa.Append(e)
		fa.Write([]byte("x"))
		fa.Stop()
	case 2: // console stream fails
		saved := Stdout
		sink := &vFailSink{mode: vChoose("sinkMode", 4)}
		Stdout = sink
		ca := &ConsoleAppender{Layout: lay}
		ca.Append(e)
		ca.Write([]byte("x"))
		Stdout = saved
		vAssert(sink.n >= 2, "console-appender-attempts-each-write")
	default: // rolling appender whose directory is missing from the start
		ra := &RollingFileAppender{Layout: lay, FileDir: dir, FileName: "r", Rotation: TimeRotation{Interval: time.Second}, MaxAge: 1}
		err := ra.Start()
		vAssert(err != nil, "rolling-start-reports-missing-directory")
		ra.Append(e)
		ra.Write([]byte("x"))
		ra.clearExpiredFiles() // the retention scan during the outage must not fail either
		ra.Stop()
	}
	vReach("end")
}
