package log

//verif:witness H_C15_camelkey end
//verif:bound C15 all toCamelKey: keys of 1..3 words (1..2 arbitrary bytes of [a-z0-9] each) in camelCase / kebab-case / snake_case, with an optional second dotted group

func vUpperFirst(s string) string {
	if len(s) > 0 && 'a' <= s[0] && s[0] <= 'z' {
		return string([]byte{s[0] - 32}) + s[1:]
	}
	return s
}

func H_C15_camelkey() {
	word := func(name string) string {
		n := 1 + vChoose(name+"len", 2)
		p := vString(name, n)
		for i := 0; i < n; i++ {
			c := p[i]
			vAssume(('a' <= c && c <= 'z') || ('0' <= c && c <= '9'))
		}
		return p
	}
	group := func(g string) (camel, kebab, snake string) {
		k := 1 + vChoose(g+"words", 3)
		for i := 0; i < k; i++ {
			wd := word(g + "w")
			if i == 0 {
				camel, kebab, snake = wd, wd, wd
			} else {
				camel += vUpperFirst(wd)
				kebab += "-" + wd
				snake += "_" + wd
			}
		}
		return
	}
	c, k, s := group("a")
	if vChoose("dotted", 2) == 1 {
		c2, k2, s2 := group("b")
		c, k, s = c+"."+c2, k+"."+k2, s+"."+s2
	}
	rc, rk, rs := toCamelKey(c), toCamelKey(k), toCamelKey(s)
	vObserve("camel", rk)
	vAssert(rk == rc, "kebab-equals-camel")
	vAssert(rs == rc, "snake-equals-camel")
	vAssert(rc == c, "camel-spelling-is-canonical")
	vReach("end")
}

//verif:witness H_C15_refresh ok rejected
//verif:bound C15 all real Refresh (NewPlugin/inject/injectAttribute/injectElement through the reflect shim) for every registered logger type (Logger, AsyncLogger, Discard, Console, File, RollingFile) x appender type (Discard, Console, File, RollingFile) x 17 configuration variants (valid; ${sub-tree} placeholders; level values '~', 'info~', '~error'; no appender section; unknown logger type; unknown appender type; unknown appenderRef type (single and as second element of an indexed list); unknown layout type; dangling appenderRef; missing tags; ill-typed attribute; bad policy; bad level; property injection error; ${key} present; ${key} absent): returns nil or an error as specified, never panics
//verif:assume C15 the expression-text -> map step of 'name!' entries is ANTLR's (see C17); toStorage is exercised with expr.Parse replaced by a table for the texts the harness uses, validated natively against the real parser on every cross-checked path

func vLoggerNeedsRefs(typ string) bool { return typ == "Logger" || typ == "AsyncLogger" }

func H_C15_refresh() {
	vOpt("loop", 400)
	vOpt("preempt", 1)
	root := vFSRoot()
	defer vFSCleanup()
	dir := root + "/logs"
	vFSMkdir(dir)
	savedHandles := loggerMap
	loggerMap = map[string]*LoggerWrapper{}
	savedOut := Stdout
	Stdout = &vSink{}
	defer func() {
		Destroy()
		global.init = false
		loggerMap = savedHandles
		Stdout = savedOut
		TagAppDef.logger, TagBizDef.logger = nil, nil
		enableCaller, fastCaller = true, false
	}()
	ltype := [6]string{"Logger", "AsyncLogger", "Discard", "Console", "File", "RollingFile"}[vChoose("loggerType", 6)]
	atype := [4]string{"Discard", "Console", "File", "RollingFile"}[vChoose("appenderType", 4)]
	cfg := map[string]string{
		"appender.a1.type":     atype,
		"appender.a1.fileDir":  dir,
		"appender.a1.fileName": "a1.log",
		"appender.a1.rotation": "h",
		"appender.a1.maxAge":   "24",
		"logger.l1.type":       ltype,
		"logger.l1.tags":       "_app_def",
		"logger.l1.fileDir":    dir,
		"logger.l1.fileName":   "l1.log",
		"logger.l1.rotation":   "h",
	}
	if vLoggerNeedsRefs(ltype) {
		cfg["logger.l1.appenderRef.ref"] = "a1"
	}
	wantErr := false
	switch vChoose("variant", 20) {
	case 17: // an appender reference of an unknown plugin type
		if !vLoggerNeedsRefs(ltype) {
			return
		}
		cfg["logger.l1.appenderRef.type"] = "NoSuchRef"
		wantErr = true
	case 18: // ... as the second element of an indexed list
		if !vLoggerNeedsRefs(ltype) {
			return
		}
		delete(cfg, "logger.l1.appenderRef.ref")
		cfg["logger.l1.appenderRef[0].ref"] = "a1"
		cfg["logger.l1.appenderRef[1].ref"] = "a1"
		cfg["logger.l1.appenderRef[1].type"] = "NoSuchRef"
		wantErr = true
	case 19: // a layout of an unknown plugin type
		if atype == "Discard" {
			return
		}
		cfg["appender.a1.layout.type"] = "NoSuchLayout"
		wantErr = true
	case 12: // a placeholder naming a configuration sub-tree is not a property
		cfg["logger.l1.level"] = "${appender}"
		wantErr = true
	case 13:
		cfg["logger.l1.level"] = "~"
		wantErr = true
	case 14:
		cfg["logger.l1.level"] = "info~"
		wantErr = true
	case 15:
		cfg["logger.l1.level"] = "~error"
		wantErr = true
	case 16:
		cfg["logger.l1.level"] = "${logger.l1}"
		wantErr = true
	case 0: // valid
	case 1:
		for k := range cfg {
			if len(k) > 9 && k[:9] == "appender." {
				delete(cfg, k)
			}
		}
		wantErr = true
	case 2:
		cfg["logger.l1.type"] = "NoSuchLogger"
		wantErr = true
	case 3:
		cfg["appender.a1.type"] = "NoSuchAppender"
		wantErr = true
	case 4:
		if !vLoggerNeedsRefs(ltype) {
			return
		}
		cfg["logger.l1.appenderRef.ref"] = "missing"
		wantErr = true
	case 5:
		delete(cfg, "logger.l1.tags")
		wantErr = true
	case 6:
		if ltype != "AsyncLogger" && ltype != "RollingFile" {
			return
		}
		cfg["logger.l1.bufferSize"] = "12a"
		wantErr = true
	case 7:
		if ltype != "AsyncLogger" && ltype != "RollingFile" {
			return
		}
		cfg["logger.l1.bufferFullPolicy"] = "Sometimes"
		wantErr = true
	case 8:
		cfg["logger.l1.level"] = "LOUD"
		wantErr = true
	case 9:
		cfg["fastCaller"] = "maybe"
		wantErr = true
	case 10:
		cfg["logger.l1.level"] = "${my.level}"
		cfg["my.level"] = "warn~error"
	default:
		cfg["logger.l1.level"] = "${my.level}"
		wantErr = true
	}
	err := Refresh(cfg) // a panic is a path outcome
	if wantErr {
		vAssert(err != nil, "bad-configuration-is-an-error")
		vReach("rejected")
	} else {
		vAssert(err == nil, "every-registered-type-can-be-instantiated-from-configuration")
		vReach("ok")
	}
}

//verif:witness H_C15_inject end
//verif:bound C15 all attribute resolution through the real Refresh for an AsyncLogger: each of bufferSize / bufferFullPolicy / level present or absent (declared defaults), values from well-typed literals incl. hex, padded forms and '1dd' with two arbitrary decimal digits, ${key} indirection (the reference and the property each in any of the three spellings), key spelling camelCase / kebab-case / snake_case, flat keys vs the inline 'logger.l1!' expression form; the created plugin's fields are compared with the configured value, else the declared default

func vSpell(key string, mode int) string {
	// key is camelCase; produce kebab-case or snake_case
	if mode == 0 {
		return key
	}
	sep := byte('-')
	if mode == 2 {
		sep = '_'
	}
	var out []byte
	for i := 0; i < len(key); i++ {
		c := key[i]
		if 'A' <= c && c <= 'Z' {
			out = append(out, sep, c+32)
		} else {
			out = append(out, c)
		}
	}
	return string(out)
}

func H_C15_inject() {
	vOpt("loop", 400)
	vOpt("preempt", 1)
	vOpt("exprtable", 1)
	savedHandles := loggerMap
	loggerMap = map[string]*LoggerWrapper{}
	defer func() {
		Destroy()
		global.init = false
		loggerMap = savedHandles
		TagAppDef.logger, TagBizDef.logger = nil, nil
	}()
	spell := vChoose("spelling", 3)
	inline := vChoose("inline", 2) == 1
	type attr struct{ key, val string }
	var attrs []attr
	wantSize, wantPolicy := 10000, BufferFullPolicyDiscard
	wantLevel := LevelRange{MinLevel: NoneLevel, MaxLevel: MaxLevel}
	cfg := map[string]string{"appender.a1.type": "Rec"}
	if vChoose("hasSize", 2) == 1 {
		switch vChoose("size", 4) {
		case 3:
			// "1dd" with two arbitrary decimal digits
			d := vString("digits", 2)
			vAssume('0' <= d[0] && d[0] <= '9' && '0' <= d[1] && d[1] <= '9')
			attrs, wantSize = append(attrs, attr{"bufferSize", "1" + d}), 100+10*int(d[0]-'0')+int(d[1]-'0')
		case 0:
			attrs, wantSize = append(attrs, attr{"bufferSize", "100"}), 100
		case 1:
			attrs, wantSize = append(attrs, attr{"bufferSize", "0x80"}), 128
		default:
			if inline {
				return // a padded value cannot be written as an unquoted expression token
			}
			attrs, wantSize = append(attrs, attr{"bufferSize", " 256 "}), 256
		}
	}
	if vChoose("hasPolicy", 2) == 1 {
		if vChoose("policy", 2) == 0 {
			attrs, wantPolicy = append(attrs, attr{"bufferFullPolicy", "Block"}), BufferFullPolicyBlock
		} else {
			attrs, wantPolicy = append(attrs, attr{"bufferFullPolicy", "DiscardOldest"}), BufferFullPolicyDiscardOldest
		}
	}
	if vChoose("hasLevel", 2) == 1 {
		switch vChoose("level", 3) {
		case 0:
			attrs = append(attrs, attr{"level", "info"})
			wantLevel = LevelRange{MinLevel: InfoLevel, MaxLevel: MaxLevel}
		case 1:
			if inline {
				return // '~' is not an expression token
			}
			attrs = append(attrs, attr{"level", "warn~error"})
			wantLevel = LevelRange{MinLevel: WarnLevel, MaxLevel: ErrorLevel}
		default:
			if inline {
				return
			}
			// the reference and the property it names may be spelled differently
			attrs = append(attrs, attr{"level", "${" + vSpell("myLevel", vChoose("refSpelling", 3)) + "}"})
			cfg[vSpell("myLevel", spell)] = "debug"
			wantLevel = LevelRange{MinLevel: DebugLevel, MaxLevel: MaxLevel}
		}
	}
	if inline {
		text := "AsyncLogger{tags=\"_app_def\",appenderRef=AppenderRef{ref=a1}"
		m := map[string]string{"type": "AsyncLogger", "tags": "_app_def", "appenderRef.type": "AppenderRef", "appenderRef.ref": "a1"}
		for _, a := range attrs {
			k := vSpell(a.key, spell)
			if spell == 1 {
				return // '-' is not an identifier character of the expression grammar
			}
			text += "," + k + "=" + a.val
			m[k] = a.val
		}
		text += "}"
		vExprTable[text] = m
		cfg["logger.l1!"] = text
	} else {
		cfg["logger.l1.type"] = "AsyncLogger"
		cfg["logger.l1.tags"] = "_app_def"
		cfg["logger.l1."+vSpell("appenderRef", spell)+".ref"] = "a1"
		for _, a := range attrs {
			cfg["logger.l1."+vSpell(a.key, spell)] = a.val
		}
	}
	err := Refresh(cfg)
	vAssert(err == nil, "well-typed-configuration-accepted")
	if err != nil {
		return
	}
	var al *AsyncLogger
	for _, l := range global.loggers {
		if x, ok := l.(*AsyncLogger); ok {
			al = x
		}
	}
	vAssert(al != nil, "async-logger-created")
	if al != nil {
		vAssert(al.Name == "l1", "name-attribute-from-key")
		vAssert(al.BufferSize == wantSize, "integer-attribute-configured-or-default")
		vAssert(al.BufferFullPolicy == wantPolicy, "converter-attribute-configured-or-default")
		vAssert(al.Level == wantLevel, "level-attribute-configured-default-or-property-reference")
		vAssert(al.Tags == "_app_def", "string-attribute")
		vAssert(len(al.AppenderRefs.AppenderRefs) == 1 && al.AppenderRefs.AppenderRefs[0].Ref == "a1", "element-injected")
	}
	vReach("end")
}

//verif:witness H_C15_inline end
//verif:bound C15 all inline 'name!' entries through the REAL expression parser (ANTLR executed in the engine): a Refresh whose inline expression is malformed (5 shapes) must return an error; after Destroy a Refresh with the well-formed inline form must succeed and yield the same plugin as the flat form
// H_C15_inline: bad inline expression is an error, and it leaves nothing behind.
func H_C15_inline() {
	vOpt("loop", 2000)
	vOpt("preempt", 1)
	savedHandles := loggerMap
	loggerMap = map[string]*LoggerWrapper{}
	defer func() {
		Destroy()
		global.init = false
		loggerMap = savedHandles
		TagAppDef.logger, TagBizDef.logger = nil, nil
	}()
	good := "AsyncLogger{tags=\"_app_def\",appenderRef=AppenderRef{ref=a1},bufferSize=128,buffer_full_policy=Block}"
	if vChoose("badFirst", 2) == 1 {
		bad := [5]string{"}", "AsyncLogger{tags=", "AsyncLogger{a.b[=1}", "L{a=b{c}}", "= {"}[vChoose("bad", 5)]
		err := Refresh(map[string]string{"appender.a1.type": "Rec", "logger.l1!": bad})
		vAssert(err != nil, "malformed-inline-expression-is-an-error")
		Destroy()
	}
	err := Refresh(map[string]string{"appender.a1.type": "Rec", "logger.l1!": good})
	vAssert(err == nil, "well-formed-inline-expression-accepted")
	if err == nil {
		var al *AsyncLogger
		for _, l := range global.loggers {
			if x, ok := l.(*AsyncLogger); ok {
				al = x
			}
		}
		vAssert(al != nil && al.BufferSize == 128 && al.BufferFullPolicy == BufferFullPolicyBlock && al.Tags == "_app_def" && len(al.AppenderRefs.AppenderRefs) == 1, "inline-form-yields-the-declared-plugin")
	}
	vReach("end")
}
