package log

//verif:witness H_C15_camelkey end
//verif:bound C15 all toCamelKey: keys of 1..3 words (1..2 arbitrary bytes of [a-z0-9] each) in camelCase / kebab-case / snake_case, with an optional second dotted group

func vUpperFirst(s string) string {
	if len(s) > 0 && 'a' <= s[0] && s[0] <= 'z' {
		return string([]byte{s[0] - 32}) + s[1:]
	}
	return s
}

func H_C15_camelkey() {
	word := func(name string) string {
		n := 1 + vChoose(name+"len", 2)
		p := vString(name, n)
		for i := 0; i < n; i++ {
			c := p[i]
			vAssume(('a' <= c && c <= 'z') || ('0' <= c && c <= '9'))
		}
		return p
	}
	group := func(g string) (camel, kebab, snake string) {
		k := 1 + vChoose(g+"words", 3)
		for i := 0; i < k; i++ {
			wd := word(g + "w")
			if i == 0 {
				camel, kebab, snake = wd, wd, wd
			} else {
				camel += vUpperFirst(wd)
				kebab += "-" + wd
				snake += "_" + wd
			}
		}
		return
	}
	c, k, s := group("a")
	if vChoose("dotted", 2) == 1 {
		c2, k2, s2 := group("b")
		c, k, s = c+"."+c2, k+"."+k2, s+"."+s2
	}
	rc, rk, rs := toCamelKey(c), toCamelKey(k), toCamelKey(s)
	vAssert(rk == rc, "kebab-equals-camel")
	vAssert(rs == rc, "snake-equals-camel")
	vAssert(rc == c, "camel-spelling-is-canonical")
	vReach("end")
}
