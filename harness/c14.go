package log

//verif:witness H_C14_retention end
//verif:bound C14 quick directory of 1..2 entries, each one of: own-pattern name 'a.'+14 arbitrary bytes, 'a.'+3 arbitrary bytes, the sibling appender's 'a.wf.'+14 digits, 'a'+one arbitrary separator byte+14 digits, an arbitrary 3-byte name, a sub-directory with an own-pattern name; age an arbitrary integer 0..10^7 s, max age an arbitrary integer 1..720 h (LIA) or one of the constants 1, 2, 24, 596, 597, 719, 720 evaluated with the code's machine arithmetic, one arbitrary (frozen) clock reading
//verif:bound C14 thorough directory of 1..3 entries, otherwise as quick
//verif:assume C14 entry names contain no '/' and no NUL and are pairwise distinct (so that a counterexample can be created on a real file system)
//verif:assume C14 ages within 5 s of the cut-off are outside the claim (natively the clock moves between file creation and the scan)
//verif:assume C14 clock and durations are encoded as mathematical integers (0 <= t < 2^40 s), so no wrap-around of time arithmetic is modelled

func vIsOwn(name, fileName string) bool {
	if len(name) != len(fileName)+1+14 || name[:len(fileName)] != fileName || name[len(fileName)] != '.' {
		return false
	}
	for i := len(fileName) + 1; i < len(name); i++ {
		if name[i] < '0' || name[i] > '9' {
			return false
		}
	}
	return true
}

func H_C14_retention() {
	vOpt("loop", 200)
	vClockMode(2)
	root := vFSRoot()
	defer vFSCleanup()
	dir := root + "/logs"
	vFSMkdir(dir)
	maxE := 2
	if vTier() > 0 {
		maxE = 3
	}
	ne := 1 + vChoose("entries", maxE)
	// max age: an arbitrary integer 1..720 (mathematical-integer encoding), or one of the
	// boundary constants computed with the code's own machine arithmetic (int32 field, Duration)
	var maxAge int64
	if k := vChoose("maxAgeKind", 8); k == 0 {
		maxAge = vIntLIA("maxAge", 1, 720)
	} else {
		maxAge = [7]int64{1, 2, 24, 596, 597, 719, 720}[k-1]
	}
	names := make([]string, ne)
	ages := make([]int64, ne)
	dirs := make([]bool, ne)
	for i := 0; i < ne; i++ {
		var name string
		switch vChoose("kind", 6) {
		case 5:
			name = "a" + vString("sep", 1) + "20250601120000" // own pattern except for an arbitrary separator byte
		case 0:
			name = "a." + vString("ts", 14)
		case 1:
			name = "a." + vString("sfx", 3)
		case 2:
			name = "a.wf.20250601120000"
		case 3:
			name = vString("other", 3)
		default:
			name = "a." + vString("dts", 14)
			dirs[i] = true
		}
		for j := 0; j < len(name); j++ {
			vAssume(name[j] != '/' && name[j] != 0)
		}
		vAssume(name != "." && name != "..")
		for k := 0; k < i; k++ {
			vAssume(names[k] != name)
		}
		age := vIntLIA("age", 0, 10000000)
		cut := maxAge * 3600
		vAssume(age <= cut-5 || age >= cut+5)
		names[i], ages[i] = name, age
		vFSAddFile(dir, name, []byte("x"), age, dirs[i])
	}
	app := &RollingFileAppender{FileDir: dir, FileName: "a", MaxAge: int32(maxAge)}
	app.clearExpiredFiles()
	for i := 0; i < ne; i++ {
		removed := !vFSExists(dir, names[i])
		want := !dirs[i] && vIsOwn(names[i], "a") && ages[i] > maxAge*3600
		if want {
			vAssert(removed, "own-expired-file-is-deleted")
		} else {
			vAssert(!removed, "only-own-expired-regular-files-are-deleted")
		}
	}
	vReach("end")
}

//verif:witness H_C14_sequence end
//verif:bound C14 all histories: an optional earlier scan (on a missing directory, on an empty directory, or on a directory holding one expired own file), then the directory is (re)populated with one expired and one young own file and scanned again, then a further expired file and a third scan; max age 1, 24 or 720 h; every scan deletes exactly the expired own files present at that time
func H_C14_sequence() {
	vOpt("loop", 200)
	vClockMode(2)
	root := vFSRoot()
	defer vFSCleanup()
	dir := root + "/logs"
	maxAge := [3]int64{1, 24, 720}[vChoose("maxAge", 3)]
	old := maxAge*3600 + 100
	app := &RollingFileAppender{FileDir: dir, FileName: "a", MaxAge: int32(maxAge)}
	switch vChoose("earlier", 4) {
	case 1:
		app.clearExpiredFiles() // the directory does not exist (yet)
	case 2:
		vFSMkdir(dir)
		app.clearExpiredFiles()
	case 3:
		vFSMkdir(dir)
		vFSAddFile(dir, "a.20240101000000", []byte("x"), old, false)
		app.clearExpiredFiles()
		vAssert(!vFSExists(dir, "a.20240101000000"), "own-expired-file-is-deleted")
	}
	vFSMkdir(dir)
	vFSAddFile(dir, "a.20250101000000", []byte("x"), old, false)
	vFSAddFile(dir, "a.20250601120000", []byte("x"), 10, false)
	app.clearExpiredFiles()
	vAssert(!vFSExists(dir, "a.20250101000000"), "own-expired-file-is-deleted-by-a-later-scan")
	vAssert(vFSExists(dir, "a.20250601120000"), "young-file-is-kept")
	vFSAddFile(dir, "a.20250102000000", []byte("x"), old, false)
	app.clearExpiredFiles()
	vAssert(!vFSExists(dir, "a.20250102000000"), "own-expired-file-is-deleted-by-a-later-scan")
	vAssert(vFSExists(dir, "a.20250601120000"), "young-file-is-kept")
	vReach("end")
}

//verif:witness H_C14_aging end
//verif:bound C14 all histories over one appender under the concrete clock (max age 1 h): an own file first seen young (age 3000 s) by a scan; then 1000 s pass and the file is either left alone (now expired: the next scan must delete it) or rewritten (young again: the next scan must keep it); a second own file stays young throughout
//verif:engine-only H_C14_aging
func H_C14_aging() {
	vOpt("loop", 200)
	root := vFSRoot()
	defer vFSCleanup()
	dir := root + "/logs"
	vFSMkdir(dir)
	app := &RollingFileAppender{FileDir: dir, FileName: "a", MaxAge: 1}
	vFSAddFile(dir, "a.20250101000000", []byte("x"), 3000, false)
	vFSAddFile(dir, "a.20250101010000", []byte("y"), 10, false)
	app.clearExpiredFiles()
	vAssert(vFSExists(dir, "a.20250101000000") && vFSExists(dir, "a.20250101010000"), "young-files-are-kept")
	vClockAdvance(1000)
	rewritten := vChoose("rewritten", 2) == 1
	if rewritten {
		vFSAddFile(dir, "a.20250101000000", []byte("xx"), 0, false)
	}
	app.clearExpiredFiles()
	if rewritten {
		vAssert(vFSExists(dir, "a.20250101000000"), "file-modified-since-the-last-scan-is-judged-by-its-current-modification-time")
	} else {
		vAssert(!vFSExists(dir, "a.20250101000000"), "file-that-expired-since-the-last-scan-is-deleted")
	}
	vAssert(vFSExists(dir, "a.20250101010000"), "young-files-are-kept")
	vReach("end")
}

//verif:witness H_C14_names end
//verif:bound C14 all file names containing characters that are special in patterns ('app.log', 'a+b', 'a[1]'): one expired own file and six expired foreign files whose names differ from the own pattern in one position (other separator, other character where the name has a dot, 13 digits, a suffix, a prefix): exactly the own file is deleted
func H_C14_names() {
	vOpt("loop", 200)
	vClockMode(2)
	root := vFSRoot()
	defer vFSCleanup()
	dir := root + "/logs"
	vFSMkdir(dir)
	which := vChoose("fileName", 3)
	fileName := [3]string{"app.log", "a+b", "a[1]"}[which]
	alt := [3]string{"appxlog", "aab", "a1"}[which] // what the name would also match if read as a pattern
	const ts = "20250101000000"
	old := int64(3600 + 100)
	own := fileName + "." + ts
	foreign := []string{alt + "." + ts, fileName + "-" + ts, fileName + "." + ts[:13], own + ".gz", "x" + own, fileName + ".wf." + ts}
	vFSAddFile(dir, own, []byte("x"), old, false)
	for _, n := range foreign {
		vFSAddFile(dir, n, []byte("x"), old, false)
	}
	app := &RollingFileAppender{FileDir: dir, FileName: fileName, MaxAge: 1}
	app.clearExpiredFiles()
	vAssert(!vFSExists(dir, own), "own-expired-file-is-deleted")
	for _, n := range foreign {
		vAssert(vFSExists(dir, n), "only-own-expired-regular-files-are-deleted")
	}
	vReach("end")
}
