package log

import (
	"io/fs"
	"os"
	"path/filepath"
	"reflect"
)

// Source-level models of library functions whose real implementation needs reflection.
// The engine redirects calls (see engine/intrinsics.go: redirects); natively the real
// functions run and these models are unused.

// vmSortSlice models sort.Slice for fewer than 13 elements, where the real pdqsort_func is
// exactly this stable insertion sort (sort/zsortfunc.go: insertionSortLessFunc).
func vmSortSlice(x any, less func(i, j int) bool) {
	n := vSliceLen(x)
	if n > 12 {
		panic("vmSortSlice: more than 12 elements are outside the model")
	}
	for i := 1; i < n; i++ {
		for j := i; j > 0 && less(j, j-1); j-- {
			vSliceSwap(x, j, j-1)
		}
	}
}

func vSliceLen(x any) int { return reflect.ValueOf(x).Len() }
func vSliceSwap(x any, i, j int) {
	reflect.Swapper(x)(i, j)
}

// vExprTable: what expr.Parse returns for the expression texts a harness uses (engine only;
// natively the real parser runs, which validates the table on every cross-checked path).
var vExprTable = map[string]map[string]string{}

func vmExprParse(data string) (map[string]string, error) {
	m, ok := vExprTable[data]
	if !ok {
		panic("vmExprParse: text not in the harness table: " + data)
	}
	out := make(map[string]string, len(m))
	for k, v := range m {
		out[k] = v
	}
	return out, nil
}

// vmWalkDir models filepath.WalkDir over the file-system model, whose directories are flat: the
// callback sees the root (or the error of looking it up, with a nil entry), then every entry in
// lexical order; fs.SkipDir / fs.SkipAll end the walk as the real function does for a flat tree.
func vmWalkDir(root string, fn fs.WalkDirFunc) error {
	entries, err := os.ReadDir(root)
	if err != nil {
		err = fn(root, nil, err)
		if err == filepath.SkipDir || err == filepath.SkipAll {
			return nil
		}
		return err
	}
	if err := fn(root, &vDirEntry{name: filepath.Base(root), dir: true}, nil); err != nil {
		if err == filepath.SkipDir || err == filepath.SkipAll {
			return nil
		}
		return err
	}
	for _, e := range entries {
		if err := fn(filepath.Join(root, e.Name()), e, nil); err != nil {
			if err == filepath.SkipDir && e.IsDir() {
				continue
			}
			if err == filepath.SkipDir || err == filepath.SkipAll {
				return nil
			}
			return err
		}
	}
	return nil
}
