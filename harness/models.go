package log

import "reflect"

// Source-level models of library functions whose real implementation needs reflection.
// The engine redirects calls (see engine/intrinsics.go: redirects); natively the real
// functions run and these models are unused.

// vmSortSlice models sort.Slice for fewer than 13 elements, where the real pdqsort_func is
// exactly this stable insertion sort (sort/zsortfunc.go: insertionSortLessFunc).
func vmSortSlice(x any, less func(i, j int) bool) {
	n := vSliceLen(x)
	if n > 12 {
		panic("vmSortSlice: more than 12 elements are outside the model")
	}
	for i := 1; i < n; i++ {
		for j := i; j > 0 && less(j, j-1); j-- {
			vSliceSwap(x, j, j-1)
		}
	}
}

func vSliceLen(x any) int { return reflect.ValueOf(x).Len() }
func vSliceSwap(x any, i, j int) {
	reflect.Swapper(x)(i, j)
}

// vExprTable: what expr.Parse returns for the expression texts a harness uses (engine only;
// natively the real parser runs, which validates the table on every cross-checked path).
var vExprTable = map[string]map[string]string{}

func vmExprParse(data string) (map[string]string, error) {
	m, ok := vExprTable[data]
	if !ok {
		panic("vmExprParse: text not in the harness table: " + data)
	}
	out := make(map[string]string, len(m))
	for k, v := range m {
		out[k] = v
	}
	return out, nil
}
