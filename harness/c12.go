package log

//verif:witness H_C12_sync end
//verif:bound C12 quick sync logger with 1..2 appender references of arbitrary int32 ranges, two raw writes of arbitrary bytes (length 0..2 each) through the named handle
//verif:bound C12 thorough 1..3 references, payload length 0..3

func H_C12_sync() {
	maxK, maxN := 2, 2
	if vTier() > 0 {
		maxK, maxN = 3, 3
	}
	k := 1 + vChoose("refs", maxK)
	apps := make([]*vRecAppender, k)
	refs := make([]*AppenderRef, k)
	for i := 0; i < k; i++ {
		apps[i] = &vRecAppender{}
		lv := LevelRange{MinLevel: NoneLevel, MaxLevel: MaxLevel}
		if vChoose("bounded", 2) == 1 {
			lv = LevelRange{MinLevel: Level{code: vInt32("min"), name: "LO"}, MaxLevel: Level{code: vInt32("max"), name: "HI"}}
		}
		refs[i] = &AppenderRef{Appender: apps[i], Level: lv}
	}
	logger := &SyncLogger{LoggerBase: LoggerBase{Name: "l", Level: LevelRange{MinLevel: NoneLevel, MaxLevel: MaxLevel}}}
	logger.AppenderRefs.AppenderRefs = refs
	logger.sortByLevel()
	h := &LoggerWrapper{name: "l", logger: logger}
	p1 := vBytes("p1", vChoose("n1", maxN+1))
	p2 := vBytes("p2", vChoose("n2", maxN+1))
	n1, err1 := h.Write(p1)
	n2, err2 := h.Write(p2)
	vAssert(n1 == len(p1) && err1 == nil && n2 == len(p2) && err2 == nil, "write-reports-full-length")
	for i := 0; i < k; i++ {
		vAssert(apps[i].writes == 2, "every-appender-receives-each-write-exactly-once")
		if apps[i].writes == 2 {
			vAssert(vBytesEqual(apps[i].raw[0], p1) && vBytesEqual(apps[i].raw[1], p2), "bytes-verbatim-in-call-order")
		}
		vAssert(apps[i].appends == 0, "raw-write-is-not-an-event")
	}
	vReach("end")
}

//verif:witness H_C12_async end
//verif:bound C12 all async logger (capacity 1..2, 3 policies): two raw writes of arbitrary bytes from one buffer that the caller overwrites after each Write returns and before the worker runs
//verif:engine-only H_C12_async

func H_C12_async() {
	vOpt("preempt", 1)
	capacity := 1 + vChoose("cap", 2)
	policy := vChoose("policy", 3)
	vOpt("chancap", capacity)
	app := &vRecAppender{}
	l := &AsyncLogger{LoggerBase: LoggerBase{Name: "a", Level: LevelRange{MinLevel: NoneLevel, MaxLevel: MaxLevel}}, BufferSize: 100, BufferFullPolicy: BufferFullPolicy(policy)}
	lv := LevelRange{MinLevel: NoneLevel, MaxLevel: MaxLevel}
	if vChoose("bounded", 2) == 1 {
		lv = LevelRange{MinLevel: Level{code: vInt32("min"), name: "LO"}, MaxLevel: Level{code: vInt32("max"), name: "HI"}}
	}
	l.AppenderRefs.AppenderRefs = []*AppenderRef{{Appender: app, Level: lv}}
	if err := l.Start(); err != nil {
		panic(err)
	}
	h := &LoggerWrapper{name: "a", logger: l}
	n := 1 + vChoose("n", 2)
	buf := vBytes("p", n)
	orig1 := append([]byte(nil), buf...)
	h.Write(buf)
	// the caller recycles its buffer for the next payload
	for i := range buf {
		buf[i] ^= 0xFF
	}
	orig2 := append([]byte(nil), buf...)
	h.Write(buf)
	for i := range buf {
		buf[i] = 0
	}
	l.Stop()
	discarded := int(l.GetDiscardCounter())
	vAssert(app.writes+discarded == 2, "each-write-delivered-or-counted")
	if discarded == 0 && app.writes == 2 {
		vAssert(vBytesEqual(app.raw[0], orig1) && vBytesEqual(app.raw[1], orig2), "delivered-bytes-are-those-present-at-the-call")
	}
	vReach("end")
}
