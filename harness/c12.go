package log

//verif:witness H_C12_sync end
//verif:bound C12 quick sync logger with 1..2 appender references of arbitrary int32 ranges, two raw writes of arbitrary bytes (length 0..2 each, the first alternatively 70 000 bytes) through the named handle
//verif:bound C12 thorough 1..3 references, payload length 0..3

// vLargePayload: 70 000 bytes (more than the 64 KiB of the properties' quantifiers) with marked ends.
func vLargePayload(first byte) []byte {
	p := make([]byte, 70000)
	p[0], p[len(p)-1] = first, ^first
	return p
}

func H_C12_sync() {
	maxK, maxN := 2, 2
	if vTier() > 0 {
		maxK, maxN = 3, 3
	}
	k := 1 + vChoose("refs", maxK)
	apps := make([]*vRecAppender, k)
	refs := make([]*AppenderRef, k)
	for i := 0; i < k; i++ {
		apps[i] = &vRecAppender{}
		lv := LevelRange{MinLevel: NoneLevel, MaxLevel: MaxLevel}
		if vChoose("bounded", 2) == 1 {
			lv = LevelRange{MinLevel: Level{code: vInt32("min"), name: "LO"}, MaxLevel: Level{code: vInt32("max"), name: "HI"}}
		}
		refs[i] = &AppenderRef{Appender: apps[i], Level: lv}
	}
	logger := &SyncLogger{LoggerBase: LoggerBase{Name: "l", Level: LevelRange{MinLevel: NoneLevel, MaxLevel: MaxLevel}}}
	logger.AppenderRefs.AppenderRefs = refs
	logger.sortByLevel()
	h := &LoggerWrapper{name: "l", logger: logger}
	var p1 []byte
	if n1 := vChoose("n1", maxN+2); n1 <= maxN {
		p1 = vBytes("p1", n1)
	} else {
		p1 = vLargePayload(vByte("p1first")) // a large payload (beyond any pooled or buffered size)
	}
	p2 := vBytes("p2", vChoose("n2", maxN+1))
	n1, err1 := h.Write(p1)
	n2, err2 := h.Write(p2)
	vAssert(n1 == len(p1) && err1 == nil && n2 == len(p2) && err2 == nil, "write-reports-full-length")
	for i := 0; i < k; i++ {
		vAssert(apps[i].writes == 2, "every-appender-receives-each-write-exactly-once")
		if apps[i].writes == 2 {
			vAssert(vBytesEqual(apps[i].raw[0], p1) && vBytesEqual(apps[i].raw[1], p2), "bytes-verbatim-in-call-order")
		}
		vAssert(apps[i].appends == 0, "raw-write-is-not-an-event")
	}
	vReach("end")
}

//verif:witness H_C12_async end
//verif:bound C12 all async logger (capacity 1..2, 3 policies): two raw writes of arbitrary bytes from one buffer that the caller overwrites after each Write returns and before the worker runs
//verif:engine-only H_C12_async

func H_C12_async() {
	vOpt("preempt", 1)
	capacity := 1 + vChoose("cap", 2)
	policy := vChoose("policy", 3)
	vOpt("chancap", capacity)
	app := &vRecAppender{}
	l := &AsyncLogger{LoggerBase: LoggerBase{Name: "a", Level: LevelRange{MinLevel: NoneLevel, MaxLevel: MaxLevel}}, BufferSize: 100, BufferFullPolicy: BufferFullPolicy(policy)}
	lv := LevelRange{MinLevel: NoneLevel, MaxLevel: MaxLevel}
	if vChoose("bounded", 2) == 1 {
		lv = LevelRange{MinLevel: Level{code: vInt32("min"), name: "LO"}, MaxLevel: Level{code: vInt32("max"), name: "HI"}}
	}
	l.AppenderRefs.AppenderRefs = []*AppenderRef{{Appender: app, Level: lv}}
	if err := l.Start(); err != nil {
		panic(err)
	}
	h := &LoggerWrapper{name: "a", logger: l}
	n := 1 + vChoose("n", 2)
	buf := vBytes("p", n)
	orig1 := append([]byte(nil), buf...)
	h.Write(buf)
	// the caller recycles its buffer for the next payload
	for i := range buf {
		buf[i] ^= 0xFF
	}
	orig2 := append([]byte(nil), buf...)
	h.Write(buf)
	for i := range buf {
		buf[i] = 0
	}
	l.Stop()
	discarded := int(l.GetDiscardCounter())
	vAssert(app.writes+discarded == 2, "each-write-delivered-or-counted")
	if discarded == 0 && app.writes == 2 {
		vAssert(vBytesEqual(app.raw[0], orig1) && vBytesEqual(app.raw[1], orig2), "delivered-bytes-are-those-present-at-the-call")
	}
	vReach("end")
}

//verif:witness H_C12_registry bound unbound
//verif:bound C12 all handle registry through the real Refresh: 1..2 handle names requested (a, b, c or root), loggers 'a' (sync), 'b' (async) and 'root' configured; obtaining a handle twice yields the same handle; Refresh fails iff a requested name is not configured; a bound handle's Write reaches the appenders of the logger of that name, verbatim

func H_C12_registry() {
	vOpt("loop", 400)
	vOpt("preempt", 1)
	savedHandles := loggerMap
	loggerMap = map[string]*LoggerWrapper{}
	defer func() {
		Destroy()
		global.init = false
		loggerMap = savedHandles
		TagAppDef.logger, TagBizDef.logger = nil, nil
	}()
	nh := 1 + vChoose("handles", 2)
	names := make([]string, nh)
	hs := make([]*LoggerWrapper, nh)
	allConfigured := true
	for i := 0; i < nh; i++ {
		c := vByte("name")
		vAssume(c == 'a' || c == 'b' || c == 'c' || c == 'r')
		names[i] = string([]byte{c})
		if c == 'r' {
			names[i] = RootLoggerName // the configured root logger is a named logger like any other
		}
		hs[i] = GetLogger(names[i])
		vAssert(GetLogger(names[i]) == hs[i], "handle-obtained-twice-is-the-same-handle")
		if c == 'c' {
			allConfigured = false
		}
	}
	cfg := map[string]string{
		"appender.ra.type":            "Rec",
		"appender.rb.type":            "Rec",
		"logger.a.type":               "Logger",
		"logger.a.tags":               "_app_def",
		"logger.a.appenderRef.ref":    "ra",
		"logger.a.appenderRef.level":  "warn~error",
		"logger.b.type":               "AsyncLogger",
		"logger.b.tags":               "_biz_def",
		"logger.b.bufferSize":         "100",
		"logger.b.bufferFullPolicy":   "Block",
		"logger.b.appenderRef.ref":    "rb",
		"appender.rr.type":            "Rec",
		"logger.root.type":            "Logger",
		"logger.root.appenderRef.ref": "rr",
	}
	err := Refresh(cfg)
	if !allConfigured {
		vAssert(err != nil, "refresh-fails-when-a-requested-handle-is-not-configured")
		vReach("unbound")
		return
	}
	vAssert(err == nil, "refresh-binds-configured-handles")
	if err != nil {
		return
	}
	var ra, rb, rr *vRecAppender
	for _, a := range global.appenders {
		x := a.(*vRecAppender)
		switch x.Name {
		case "ra":
			ra = x
		case "rb":
			rb = x
		default:
			rr = x
		}
	}
	saved := Stdout
	sink := &vSink{}
	Stdout = sink
	defer func() { Stdout = saved }()
	payload := vBytes("payload", 1+vChoose("plen", 2))
	want := append([]byte(nil), payload...)
	n, werr := hs[0].Write(payload)
	vAssert(n == len(payload) && werr == nil, "write-reports-full-length")
	Destroy() // flushes the async logger
	target := ra
	switch names[0] {
	case "b":
		target = rb
	case RootLoggerName:
		target = rr
	}
	vAssert(target.writes == 1 && ra.writes+rb.writes+rr.writes == 1 && len(sink.writes) == 0, "write-reaches-exactly-the-named-loggers-appenders")
	vAssert(rr.started == 1 && rr.stopped >= 1, "root-loggers-appender-started-and-stopped")
	if target.writes == 1 {
		vAssert(vBytesEqual(target.raw[0], want), "bytes-verbatim")
	}
	vReach("bound")
}
