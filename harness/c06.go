package log

import "time"

//verif:witness H_C06_policy end
//verif:witness H_C06_order end
//verif:bound C06 quick single-stepped worker (gated appender): every operation sequence of length 1..6 over {append event, raw write, let the worker take one}, capacity 1..2, 3 policies, against an executable FIFO queue model; per-producer order for 1..2 producers under the schedules of the C04 harness
//verif:bound C06 thorough operation sequences of length 1..8; 2 producers with pre-emption at every visible operation (1 pre-emptive switch)
//verif:assume C06 in the single-stepped harness threads switch only when the running thread blocks, so the worker prefetches exactly one item each time the producer waits for it (the queue model accounts for that in-flight item)
//verif:assume C06 under the Block policy the harness does not append to a full buffer while the worker is held (the call would wait, as specified)
//verif:engine-only H_C06_policy
//verif:engine-only H_C06_order

type vGateAppender struct {
	AppenderBase
	gate chan int
	ack  chan int
	got  []int
	entered int // calls that reached the appender (the worker is parked in it while entered > len(got))
}

func (g *vGateAppender) Start() error { return nil }
func (g *vGateAppender) Stop()        {}
func (g *vGateAppender) Append(e *Event) {
	g.entered++
	<-g.gate
	g.got = append(g.got, e.Line)
	g.ack <- 1
}
func (g *vGateAppender) Write(b []byte) {
	g.entered++
	<-g.gate
	g.got = append(g.got, int(b[0]))
	g.ack <- 1
}

func H_C06_policy() {
	vOpt("loop", 400)
	capacity := 1 + vChoose("cap", 2)
	policy := BufferFullPolicy(vChoose("policy", 3))
	vOpt("chancap", capacity)
	app := &vGateAppender{gate: make(chan int, 1), ack: make(chan int, 1)}
	all := LevelRange{MinLevel: NoneLevel, MaxLevel: MaxLevel}
	l := &AsyncLogger{LoggerBase: LoggerBase{Name: "a", Level: all}, BufferSize: 100, BufferFullPolicy: policy}
	l.AppenderRefs.AppenderRefs = []*AppenderRef{{Appender: app, Level: all}}
	if err := l.Start(); err != nil {
		panic(err)
	}
	// executable queue model
	var q, delivered []int
	inflight := -1
	discarded := 0
	take := func() {
		app.gate <- 1
		<-app.ack
		if inflight >= 0 {
			delivered = append(delivered, inflight)
			inflight = -1
		} else {
			delivered = append(delivered, q[0])
			q = q[1:]
		}
		if len(q) > 0 { // the worker prefetches the next item and waits at the gate
			inflight, q = q[0], q[1:]
		}
	}
	maxLen := 6
	if vTier() > 0 {
		maxLen = 8
	}
	n := 1 + vChoose("len", maxLen)
	id := 1
	for i := 0; i < n; i++ {
		op := vChoose("op", 3)
		if op == 2 {
			if inflight >= 0 || len(q) > 0 {
				take()
			}
			continue
		}
		full := len(q) == capacity
		if full && policy == BufferFullPolicyBlock {
			continue // would wait for the held worker, as specified
		}
		if op == 0 {
			vSubmit(l, vItem{kind: 0, id: id, level: 300})
		} else {
			vSubmit(l, vItem{kind: 2, id: id})
		}
		switch {
		case !full:
			q = append(q, id)
		case policy == BufferFullPolicyDiscard:
			discarded++
		default: // DiscardOldest drops from the head and keeps the arriving item
			q = append(q[1:], id)
			discarded++
		}
		id++
		vAssert(int(l.GetDiscardCounter()) == discarded, "discard-counter-follows-the-policy")
	}
	for inflight >= 0 || len(q) > 0 {
		take()
	}
	l.Stop()
	vAssert(len(app.got) == len(delivered), "delivered-count-matches-queue-model")
	if len(app.got) == len(delivered) {
		for i := range delivered {
			vAssert(app.got[i] == delivered[i], "delivery-order-and-survivors-match-queue-model")
		}
	}
	vAssert(int(l.GetDiscardCounter()) == discarded, "discard-counter-matches-queue-model")
	vReach("end")
}

// H_C06_order: items of one producer are delivered in submission order, under every explored schedule.
func H_C06_order() {
	vSchedOpts()
	capacity := 1 + vChoose("cap", 2)
	policy := vChoose("policy", 3)
	slow := vChoose("slow", 2) == 1
	plan, _ := vPlan(2, 2)
	_, app := vAsyncRun(capacity, policy, slow, plan)
	// delivery log in arrival order: events and raw writes are recorded separately by the
	// recording appender, so merge by the shared order log
	ids := app.seq
	for _, items := range plan {
		last := -1
		for _, id := range ids {
			for k, it := range items {
				if it.id == id {
					vAssert(k > last, "per-producer-delivery-order-is-submission-order")
					last = k
				}
			}
		}
	}
	vReach("end")
}

//verif:witness H_C06_contention end
//verif:bound C06 all contention: buffer pre-filled with the worker parked, 2 producers submit concurrently (see C04 contention bound); under Discard/DiscardOldest the calls must return while the worker stays parked (a blocked call is the outcome BLOCKED)
//verif:engine-only H_C06_contention

// H_C06_contention: with the worker parked, concurrent overflowing calls under the discard policies return.
func H_C06_contention() { vContention() }

//verif:witness H_C06_rolling end
//verif:bound C06 all rolling-file logger in async mode (capacity 1) with its file appenders replaced by a gated appender after Start: under Discard / DiscardOldest three log calls return while the worker is parked and the overflow is counted; under Block they wait for the appender
//verif:engine-only H_C06_rolling

// H_C06_rolling: the configured overflow policy reaches the inner asynchronous logger.
func H_C06_rolling() {
	vOpt("loop", 400)
	vOpt("chancap", 1)
	root := vFSRoot()
	defer vFSCleanup()
	dir := root + "/logs"
	vFSMkdir(dir)
	policy := BufferFullPolicy(1 + vChoose("policy", 2)) // Discard, DiscardOldest
	all := LevelRange{MinLevel: NoneLevel, MaxLevel: MaxLevel}
	rl := &RollingFileLogger{LoggerBase: LoggerBase{Name: "r", Level: all}, FileDir: dir, FileName: "r", Rotation: TimeRotation{Interval: time.Hour}, MaxAge: 168,
		AsyncWrite: true, BufferSize: 100, BufferFullPolicy: policy}
	if err := rl.Start(); err != nil {
		panic(err)
	}
	gate := &vGateAppender{gate: make(chan int, 8), ack: make(chan int, 8)}
	for _, a := range rl.appenders {
		a.Appender.Stop()
		a.Appender = gate // the worker will park in the appender
	}
	tag := &Tag{tag: "_t_x", logger: rl}
	for i := 1; i <= 3; i++ {
		e := GetEvent()
		e.Level, e.Line, e.Tag = InfoLevel, i, "_t_x"
		rl.Append(e) // must return although nothing can be delivered
	}
	_ = tag
	inner := rl.logger.(*AsyncLogger)
	vAssert(inner.GetDiscardCounter() >= 1, "overflow-is-discarded-not-waited-for")
	for i := 0; i < 8; i++ {
		gate.gate <- 1
	}
	rl.Stop()
	vAssert(len(gate.got)+int(inner.GetDiscardCounter()) == 3, "delivered-plus-discarded-equals-submitted")
	vReach("end")
}

//verif:witness H_C06_rolling_order end
//verif:bound C06 all rolling-file logger in async mode (Block policy, capacity 4) writing to its real file appender in the file-system model: every sequence of 3 items (event, small raw write or 70 000-byte raw write) submitted by one goroutine appears in the file in submission order after Stop
//verif:engine-only H_C06_rolling_order
func H_C06_rolling_order() {
	vOpt("loop", 400)
	vOpt("chancap", 4)
	root := vFSRoot()
	defer vFSCleanup()
	dir := root + "/logs"
	vFSMkdir(dir)
	all := LevelRange{MinLevel: NoneLevel, MaxLevel: MaxLevel}
	rl := &RollingFileLogger{LoggerBase: LoggerBase{Name: "r", Level: all}, FileDir: dir, FileName: "r", Rotation: TimeRotation{Interval: time.Hour}, MaxAge: 168,
		AsyncWrite: true, BufferSize: 100, BufferFullPolicy: BufferFullPolicyBlock}
	if err := rl.Start(); err != nil {
		panic(err)
	}
	var kinds [3]int
	for i := 0; i < 3; i++ {
		kinds[i] = vChoose("item", 3)
		mark := byte('1' + i)
		if kinds[i] == 2 {
			// a large raw write (70 000 bytes) takes the same route as a small one
			big := vLargePayload('R')
			big[1], big[2] = mark, '\n'
			rl.Write(big)
			kinds[i] = 1
		} else if kinds[i] == 0 {
			e := GetEvent()
			e.Level, e.Line, e.Tag = InfoLevel, i, "_t_x"
			e.Fields = []Field{String("k", string([]byte{'E', mark}))}
			rl.Append(e)
		} else {
			rl.Write([]byte{'R', mark, '\n'})
		}
	}
	rl.Stop()
	var content []byte
	for _, n := range vFSNames(dir) {
		c, _ := vFSRead(dir, n)
		content = append(content, c...)
	}
	// the marks must appear in the order 1, 2, 3, each once
	pos := 0
	for i := 0; i < 3; i++ {
		want := []byte{'E', byte('1' + i)}
		if kinds[i] == 1 {
			want[0] = 'R'
		}
		found := -1
		for k := pos; k+1 < len(content); k++ {
			if content[k] == want[0] && content[k+1] == want[1] {
				found = k
				break
			}
		}
		vAssert(found >= 0, "items-of-one-goroutine-appear-in-submission-order")
		if found >= 0 {
			pos = found + 2
		}
	}
	vReach("end")
}

//verif:witness H_C06_large end
//verif:bound C06 all payload size: async logger (capacity 4, 3 policies) whose appender is gated; an event, a small and a 70 000-byte raw write (either order) and an event: the calls return without waiting for the appender, and after the gate opens everything is delivered in submission order
//verif:engine-only H_C06_large
func H_C06_large() {
	vOpt("loop", 400)
	vOpt("chancap", 4)
	policy := BufferFullPolicy(vChoose("policy", 3))
	app := &vGateAppender{gate: make(chan int, 8), ack: make(chan int, 8)}
	all := LevelRange{MinLevel: NoneLevel, MaxLevel: MaxLevel}
	l := &AsyncLogger{LoggerBase: LoggerBase{Name: "a", Level: all}, BufferSize: 100, BufferFullPolicy: policy}
	l.AppenderRefs.AppenderRefs = []*AppenderRef{{Appender: app, Level: all}}
	if err := l.Start(); err != nil {
		panic(err)
	}
	vSubmit(l, vItem{kind: 0, id: 1, level: 300})
	order := vChoose("largeFirst", 2)
	for i := 0; i < 2; i++ {
		if i == order {
			l.Write(vLargePayload(2))
		} else {
			l.Write([]byte{3})
		}
	}
	vSubmit(l, vItem{kind: 0, id: 4, level: 300})
	vAssert(len(app.got) == 0, "nothing-delivered-while-the-gate-is-closed")
	for i := 0; i < 6; i++ {
		app.gate <- 1
	}
	l.Stop()
	want := [4]int{1, 3, 2, 4}
	if order == 0 {
		want = [4]int{1, 2, 3, 4}
	}
	vAssert(len(app.got) == 4 && l.GetDiscardCounter() == 0, "everything-delivered")
	if len(app.got) == 4 {
		for i := range want {
			vAssert(app.got[i] == want[i], "delivered-in-submission-order-whatever-the-payload-size")
		}
	}
	vReach("end")
}
