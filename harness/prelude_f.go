package log

import "math"

func vF64frombits(b uint64) float64 { return math.Float64frombits(b) }
func vF32frombits(b uint32) float32 { return math.Float32frombits(b) }
