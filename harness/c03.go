package log

import (
	"context"
	"time"
)

//verif:witness H_C03_lines end
//verif:bound C03 quick 2 goroutines x 1 event through one sync logger; console appender on a slow stream (yields before consuming the bytes) or file appender; text/JSON layout in the appender or at logger level; payload of 1 arbitrary byte per event plus a nested (array) field; the buffer-reuse cap (BufferCap) is an arbitrary int32; sync.Pool.Get may return any pooled object or miss; pre-emption at yields, pool operations' callers' blocking points (1 pre-emptive switch)
//verif:bound C03 thorough 2 goroutines x 1 event, pre-emption at every visible operation (2 pre-emptive switches)
//verif:assume C03 the sink consumes the slice it was given after an arbitrary delay (modelled as one yield before reading it); one write(2) per Write call is whole (file-system model)
//verif:assume C03 more than 2 goroutines are outside the bound (the defect class - a pooled buffer handed out while a write is in flight - needs two)

func vExpectedLine(lay Layout, ts time.Time, msg string, more ...Field) []byte {
	e := &Event{Level: InfoLevel, Time: ts, Tag: "_t_x", Fields: append([]Field{Msg(msg)}, more...)}
	return append([]byte(nil), lay.ToBytes(e)...)
}

func H_C03_lines() {
	restore := vSingleProc()
	defer restore()
	vOpt("loop", 400)
	vOpt("poolany", 1)
	if vTier() > 0 {
		vOpt("schedall", 1)
		vOpt("preempt", 2)
	} else {
		vOpt("preempt", 1)
	}
	// the buffer-reuse cap is arbitrary: lines below, exactly at and beyond it are all covered
	savedCap := BufferCap.Load()
	BufferCap.Store(vInt32("bufferCap"))
	defer BufferCap.Store(savedCap)
	ts := time.Unix(1700000000, 0)
	TimeNow = func(ctx context.Context) time.Time { return ts }
	savedCaller := enableCaller
	enableCaller = false
	sink := &vSink{slow: true}
	savedOut := Stdout
	Stdout = sink
	defer func() { TimeNow = nil; enableCaller = savedCaller; Stdout = savedOut }()
	var lay Layout = &TextLayout{BaseLayout{FileLineLength: 48}}
	if vChoose("layout", 2) == 1 {
		lay = &JSONLayout{BaseLayout{FileLineLength: 48}}
	}
	logger := &SyncLogger{LoggerBase: LoggerBase{Name: "s", Level: LevelRange{MinLevel: NoneLevel, MaxLevel: MaxLevel}}}
	if vChoose("loggerLayout", 2) == 1 {
		logger.Layout = lay
	}
	logger.AppenderRefs.AppenderRefs = []*AppenderRef{{Appender: &ConsoleAppender{Layout: lay}, Level: LevelRange{MinLevel: NoneLevel, MaxLevel: MaxLevel}}}
	tag := &Tag{tag: "_t_x", logger: logger}
	nper := 1
	msgs := [4]string{"a" + vString("p0", 1), "bb" + vString("p1", 1), "ccc" + vString("p2", 1), "dddd" + vString("p3", 1)}
	var want [][]byte
	for g := 0; g < 2; g++ {
		for i := 0; i < nper; i++ {
			want = append(want, vExpectedLine(lay, ts, msgs[g*2+i], Ints("v", []int{g + 1, g + 1})))
		}
	}
	done := make(chan int, 2)
	for g := 0; g < 2; g++ {
		go func(g int) {
			for i := 0; i < nper; i++ {
				// a scalar and a nested (array) field: the text layout delegates the latter to an embedded JSON encoder
				Info(context.Background(), tag, Msg(msgs[g*2+i]), Ints("v", []int{g + 1, g + 1}))
			}
			done <- 1
		}(g)
	}
	<-done
	<-done
	vAssert(len(sink.writes) == len(want), "one-write-per-event")
	used := make([]bool, len(sink.writes))
	for _, w := range want {
		found := false
		for j, got := range sink.writes {
			if !used[j] && vBytesEqual(got, w) {
				used[j], found = true, true
				break
			}
		}
		vAssert(found, "each-event-yields-its-own-complete-line")
	}
	vReach("end")
}

//verif:witness H_C03_rolling end
//verif:bound C03 all rolling-file sink: 2 goroutines x 1 event through one sync logger into a RollingFileAppender (text layout) under the symbolic clock (interval 1 s, readings within 1000 s, stall rule of C13), pre-emption at every visible operation with at most 2 pre-emptive switches; every event's line must be in exactly one file, whole
//verif:engine-only H_C03_rolling

// H_C03_rolling: concurrent events into a rotating file: none lost, none torn, none duplicated.
func H_C03_rolling() {
	vOpt("loop", 400)
	vOpt("schedall", 1)
	vOpt("preempt", 2)
	vClockMode(1)
	vClockWindow(1000)
	vClockStall(1)
	root := vFSRoot()
	defer vFSCleanup()
	dir := root + "/logs"
	vFSMkdir(dir)
	ts := time.Unix(1700000000, 0)
	TimeNow = func(ctx context.Context) time.Time { return ts }
	savedCaller := enableCaller
	enableCaller = false
	defer func() { TimeNow = nil; enableCaller = savedCaller }()
	lay := &TextLayout{BaseLayout{FileLineLength: 48}}
	app := &RollingFileAppender{Layout: lay, FileDir: dir, FileName: "r", Rotation: TimeRotation{Interval: time.Second}, MaxAge: 168}
	if err := app.Start(); err != nil {
		panic(err)
	}
	all := LevelRange{MinLevel: NoneLevel, MaxLevel: MaxLevel}
	logger := &SyncLogger{LoggerBase: LoggerBase{Name: "s", Level: all}}
	logger.AppenderRefs.AppenderRefs = []*AppenderRef{{Appender: app, Level: all}}
	tag := &Tag{tag: "_t_x", logger: logger}
	msgs := [2]string{"first-event", "second-event"}
	want := [2][]byte{vExpectedLine(lay, ts, msgs[0]), vExpectedLine(lay, ts, msgs[1])}
	done := make(chan int, 2)
	for g := 0; g < 2; g++ {
		go func(g int) {
			Info(context.Background(), tag, Msg(msgs[g]))
			done <- 1
		}(g)
	}
	<-done
	<-done
	app.Stop()
	var content []byte
	for _, n := range vFSNames(dir) {
		c, _ := vFSRead(dir, n)
		content = append(content, c...)
	}
	vAssert(len(content) == len(want[0])+len(want[1]), "exactly-the-two-lines-are-in-the-files")
	for g := 0; g < 2; g++ {
		vAssert(vContains(content, string(want[g])), "each-event-yields-its-own-complete-line-in-a-file")
	}
	vReach("end")
}

//verif:witness H_C03_rollinglogger end
//verif:bound C03 all rolling-file LOGGER (sync): one warm-up event, then 2 goroutines x 1 event, concrete clock, sync.Pool in LIFO order (one P), pre-emption at every visible operation (pool, atomics, file write) with at most 1 pre-emptive switch; every event's line must be in the file exactly once, intact
//verif:engine-only H_C03_rollinglogger

// H_C03_rollinglogger: recycled Event objects must not be shared between overlapping calls.
func H_C03_rollinglogger() {
	vOpt("loop", 400)
	vOpt("schedall", 1)
	vOpt("preempt", 1)
	root := vFSRoot()
	defer vFSCleanup()
	dir := root + "/logs"
	vFSMkdir(dir)
	ts := time.Unix(1700000000, 0)
	TimeNow = func(ctx context.Context) time.Time { return ts }
	savedCaller := enableCaller
	enableCaller = false
	defer func() { TimeNow = nil; enableCaller = savedCaller }()
	all := LevelRange{MinLevel: NoneLevel, MaxLevel: MaxLevel}
	logger := &RollingFileLogger{LoggerBase: LoggerBase{Name: "r", Level: all}, FileDir: dir, FileName: "r", Rotation: TimeRotation{Interval: time.Hour}, MaxAge: 168}
	if err := logger.Start(); err != nil {
		panic(err)
	}
	tag := &Tag{tag: "_t_x", logger: logger}
	lay := &TextLayout{BaseLayout{FileLineLength: 48}}
	Info(context.Background(), tag, Msg("warm-up"))
	msgs := [2]string{"first-event", "second-event"}
	done := make(chan int, 2)
	for g := 0; g < 2; g++ {
		go func(g int) {
			Info(context.Background(), tag, Msg(msgs[g]))
			done <- 1
		}(g)
	}
	<-done
	<-done
	logger.Stop()
	var content []byte
	for _, n := range vFSNames(dir) {
		c, _ := vFSRead(dir, n)
		content = append(content, c...)
	}
	want := len(vExpectedLine(lay, ts, "warm-up")) + len(vExpectedLine(lay, ts, msgs[0])) + len(vExpectedLine(lay, ts, msgs[1]))
	vAssert(len(content) == want, "exactly-the-three-lines-are-in-the-file")
	for g := 0; g < 2; g++ {
		vAssert(vContains(content, string(vExpectedLine(lay, ts, msgs[g]))), "each-event-yields-its-own-complete-line-in-the-file")
	}
	vReach("end")
}

//verif:witness H_C03_layoutrace end
//verif:bound C03 all two goroutines formatting one event each through the same text or JSON layout at the same time; every access to a package-level variable of the library and every call of a library function is a scheduling point (1 pre-emptive switch), sync.Pool in LIFO order: each returned line is exactly what its event yields alone
//verif:engine-only H_C03_layoutrace
func H_C03_layoutrace() {
	vOpt("loop", 400)
	vOpt("globalrace", 1)
	vOpt("callrace", 1)
	vOpt("schedall", 1)
	vOpt("preempt", 1)
	var lay Layout = &TextLayout{BaseLayout{FileLineLength: 48}}
	if vChoose("layout", 2) == 1 {
		lay = &JSONLayout{BaseLayout{FileLineLength: 48}}
	}
	mk := func(g int) *Event {
		return &Event{Level: [2]Level{InfoLevel, ErrorLevel}[g], Time: time.Unix(1700000000+int64(g), 0).UTC(), File: [2]string{"a.go", "b.go"}[g], Line: 10 + g,
			Tag: [2]string{"_t_a", "_t_b"}[g], CtxString: [2]string{"", "cs"}[g], Fields: []Field{Msg([2]string{"first", "second"}[g]), Ints("v", []int{g, g})}}
	}
	var want, got [2][]byte
	for g := 0; g < 2; g++ {
		want[g] = append([]byte(nil), lay.ToBytes(mk(g))...)
	}
	done := make(chan int, 2)
	for g := 0; g < 2; g++ {
		go func(g int) {
			got[g] = append([]byte(nil), lay.ToBytes(mk(g))...)
			done <- 1
		}(g)
	}
	<-done
	<-done
	for g := 0; g < 2; g++ {
		vAssert(vBytesEqual(got[g], want[g]), "concurrently-formatted-line-is-the-events-own")
	}
	vReach("end")
}
