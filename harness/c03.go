package log

import (
	"context"
	"time"
)

//verif:witness H_C03_lines end
//verif:bound C03 quick 2 goroutines x 1 event through one sync logger; console appender on a slow stream (yields before consuming the bytes) or file appender; text/JSON layout in the appender or at logger level; payload of 1 arbitrary byte per event; the buffer-reuse cap (BufferCap) is an arbitrary int32; sync.Pool.Get may return any pooled object or miss; pre-emption at yields, pool operations' callers' blocking points (1 pre-emptive switch)
//verif:bound C03 thorough 2 goroutines x 1..2 events, pre-emption at every visible operation (2 pre-emptive switches)
//verif:assume C03 the sink consumes the slice it was given after an arbitrary delay (modelled as one yield before reading it); one write(2) per Write call is whole (file-system model)
//verif:assume C03 more than 2 goroutines are outside the bound (the defect class - a pooled buffer handed out while a write is in flight - needs two)

func vExpectedLine(lay Layout, ts time.Time, msg string) []byte {
	e := &Event{Level: InfoLevel, Time: ts, Tag: "_t_x", Fields: []Field{Msg(msg)}}
	return append([]byte(nil), lay.ToBytes(e)...)
}

func H_C03_lines() {
	restore := vSingleProc()
	defer restore()
	vOpt("loop", 400)
	vOpt("poolany", 1)
	if vTier() > 0 {
		vOpt("schedall", 1)
		vOpt("preempt", 2)
	} else {
		vOpt("preempt", 1)
	}
	// the buffer-reuse cap is arbitrary: lines below, exactly at and beyond it are all covered
	savedCap := BufferCap.Load()
	BufferCap.Store(vInt32("bufferCap"))
	defer BufferCap.Store(savedCap)
	ts := time.Unix(1700000000, 0)
	TimeNow = func(ctx context.Context) time.Time { return ts }
	savedCaller := enableCaller
	enableCaller = false
	sink := &vSink{slow: true}
	savedOut := Stdout
	Stdout = sink
	defer func() { TimeNow = nil; enableCaller = savedCaller; Stdout = savedOut }()
	var lay Layout = &TextLayout{BaseLayout{FileLineLength: 48}}
	if vChoose("layout", 2) == 1 {
		lay = &JSONLayout{BaseLayout{FileLineLength: 48}}
	}
	logger := &SyncLogger{LoggerBase: LoggerBase{Name: "s", Level: LevelRange{MinLevel: NoneLevel, MaxLevel: MaxLevel}}}
	if vChoose("loggerLayout", 2) == 1 {
		logger.Layout = lay
	}
	logger.AppenderRefs.AppenderRefs = []*AppenderRef{{Appender: &ConsoleAppender{Layout: lay}, Level: LevelRange{MinLevel: NoneLevel, MaxLevel: MaxLevel}}}
	tag := &Tag{tag: "_t_x", logger: logger}
	nper := 1
	if vTier() > 0 {
		nper = 1 + vChoose("perGoroutine", 2)
	}
	msgs := [4]string{"a" + vString("p0", 1), "bb" + vString("p1", 1), "ccc" + vString("p2", 1), "dddd" + vString("p3", 1)}
	var want [][]byte
	for g := 0; g < 2; g++ {
		for i := 0; i < nper; i++ {
			want = append(want, vExpectedLine(lay, ts, msgs[g*2+i]))
		}
	}
	done := make(chan int, 2)
	for g := 0; g < 2; g++ {
		go func(g int) {
			for i := 0; i < nper; i++ {
				Info(context.Background(), tag, Msg(msgs[g*2+i]))
			}
			done <- 1
		}(g)
	}
	<-done
	<-done
	vAssert(len(sink.writes) == len(want), "one-write-per-event")
	used := make([]bool, len(sink.writes))
	for _, w := range want {
		found := false
		for j, got := range sink.writes {
			if !used[j] && vBytesEqual(got, w) {
				used[j], found = true, true
				break
			}
		}
		vAssert(found, "each-event-yields-its-own-complete-line")
	}
	vReach("end")
}
