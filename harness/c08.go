package log

import "time"

//verif:witness H_C08_fileline full truncated
//verif:bound C08 quick GetFileLine: width W an arbitrary int (64-bit), file name arbitrary bytes of length 0..12, line 7 and 12345; then the same call site through a second layout with another arbitrary width
//verif:bound C08 thorough GetFileLine: width W an arbitrary int (64-bit), file name arbitrary bytes of length 0..40, line 7 and 12345

func H_C08_fileline() {
	w := vInt("W")
	maxN := 12
	if vTier() > 0 {
		maxN = 40
	}
	n := vChoose("len", maxN+1)
	f := vString("file", n)
	line := 7
	lineStr := "7"
	if vChoose("line", 2) == 1 {
		line, lineStr = 12345, "12345"
	}
	l := &TextLayout{BaseLayout{FileLineLength: w}}
	got := l.GetFileLine(&Event{File: f, Line: line}) // real code; a run-time panic is a path outcome
	vObserve("fileLine", got)
	full := f + ":" + lineStr
	vFileLineSpec(got, full, w)
	// the same call site shown by a second layout with its own, unrelated width
	w2 := vInt("W2")
	l2 := &JSONLayout{BaseLayout{FileLineLength: w2}}
	vFileLineSpec(l2.GetFileLine(&Event{File: f, Line: line}), full, w2)
}

func vFileLineSpec(got, full string, w int) {
	if len(full) > w {
		keep := 0 // max(W-3, 0) without wrap-around for W near the minimum int
		if w > 3 {
			keep = w - 3
		}
		want := "..." + full[len(full)-keep:]
		vAssert(got == want, "truncated-form")
		vReach("truncated")
	} else {
		vAssert(got == full, "full-form")
		vReach("full")
	}
}

//verif:witness H_C08_text end
//verif:bound C08 quick text layout vs JSON layout on the event shapes of the C07 harness (0..2 call fields, see C07 bounds)
//verif:bound C08 thorough text layout vs JSON layout on the event shapes of the C07 harness (0..3 call fields, nesting 3)
//verif:assume C08 tag, level name and context string are harness constants without control characters (the claim is about field keys and values); time formatting is time.Format's

// H_C08_text: the text line must be the header plus key=value pairs whose texts are the JSON
// layout's tokens for the same event (string fields, error texts and non-finite floats without quotes).
func H_C08_text() {
	maxFields, maxDepth := 2, 1
	if vTier() > 0 {
		maxFields, maxDepth = 3, 2
	}
	e, want := vGenEvent(maxFields, maxDepth)
	jl := &JSONLayout{BaseLayout{FileLineLength: 48}}
	tl := &TextLayout{BaseLayout{FileLineLength: 48}}
	jout := append([]byte(nil), jl.ToBytes(e)...)
	tout := append([]byte(nil), tl.ToBytes(e)...)
	vObserve("text", tout)
	got, ok := vParseJSONLine(jout)
	vAssume(ok && got.kind == 'o' && len(got.vals) == len(want.vals)) // C07 decides validity of the JSON line
	exp := []byte("[INFO][2025-06-01T12:30:45.123][file.go:10] _t_x||")
	first := 4
	if e.CtxString != "" {
		exp = append(exp, "cs||"...)
		first = 5
	}
	for i := first; i < len(got.vals); i++ {
		if i > first {
			exp = append(exp, "||"...)
		}
		k := got.rawKeys[i]
		exp = append(exp, k[1:len(k)-1]...)
		exp = append(exp, '=')
		v := got.vals[i].raw
		if want.vals[i].unq {
			v = v[1 : len(v)-1]
		}
		exp = append(exp, v...)
	}
	exp = append(exp, '\n')
	vAssert(vBytesEqual(tout, exp), "text-line-equals-header-plus-json-tokens")
	for i := 0; i < len(tout); i++ {
		if i == len(tout)-1 {
			vAssert(tout[i] == '\n', "line-ends-with-newline")
		} else {
			vAssert(tout[i] >= 0x20, "no-raw-control-character-inside-the-line")
		}
	}
	vReach("end")
}

//verif:witness H_C08_header end
//verif:bound C08 all header: two events formatted back to back by both layouts, all 8 levels, timestamps in the same or a different second and in UTC or a fixed zone (+08:00 / -09:30); each line carries its own level name and its own wall-clock time
// H_C08_header: '[LEVEL][yyyy-MM-ddTHH:mm:ss.SSS]' of every event is its own.
func H_C08_header() {
	levels := [8]Level{NoneLevel, TraceLevel, DebugLevel, InfoLevel, WarnLevel, ErrorLevel, PanicLevel, FatalLevel}
	names := [8]string{"NONE", "TRACE", "DEBUG", "INFO", "WARN", "ERROR", "PANIC", "FATAL"}
	zones := [3]*time.Location{nil, time.FixedZone("east", 8*3600), time.FixedZone("west", -(9*3600 + 1800))}
	texts := [2][3]string{
		{"2025-06-01T12:30:45.123", "2025-06-01T20:30:45.123", "2025-06-01T03:00:45.123"},
		{"2025-06-01T12:30:46.123", "2025-06-01T20:30:46.123", "2025-06-01T03:00:46.123"},
	}
	tl := &TextLayout{BaseLayout{FileLineLength: 48}}
	jl := &JSONLayout{BaseLayout{FileLineLength: 48}}
	for ev := 0; ev < 2; ev++ {
		li := vChoose("level", 8)
		zi := vChoose("zone", 3)
		si := 0
		if ev == 1 {
			si = vChoose("second", 2)
		}
		t := vFixedTime.Add(time.Duration(si) * time.Second)
		if zones[zi] != nil {
			t = t.In(zones[zi])
		}
		e := &Event{Level: levels[li], Time: t, File: "f.go", Line: 1, Tag: "_t_x", Fields: []Field{Msg("m")}}
		tout := append([]byte(nil), tl.ToBytes(e)...)
		jout := append([]byte(nil), jl.ToBytes(e)...)
		wantHead := "[" + names[li] + "][" + texts[si][zi] + "][f.go:1] _t_x||msg=m\n"
		vAssert(string(tout) == wantHead, "text-header-is-the-events-own-level-and-time")
		g, ok := vParseJSONLine(jout)
		vAssert(ok && len(g.vals) == 5, "json-line-valid")
		if ok && len(g.vals) == 5 {
			vAssert(vEqualCPs(g.vals[1].s, vCPs(texts[si][zi])), "json-time-is-the-events-own-time")
		}
	}
	vReach("end")
}

//verif:witness H_C08_array end
//verif:bound C08 all Array with a custom encoder (the element programs of the C07 array harness, 1..3 operations over 11 kinds) followed by an ordinary field: the text layout shows the identical compact JSON the JSON layout emits for the array
func H_C08_array() {
	n := 1 + vChoose("nops", 3)
	ops := make([]int, n)
	for i := range ops {
		ops[i] = vChoose("op", vProgOps)
	}
	e := &Event{Level: InfoLevel, Time: vFixedTime, File: "file.go", Line: 10, Tag: "_t_x"}
	e.Fields = []Field{Array("arr", vProgEnc{ops}), Int("z", 1)}
	jl := &JSONLayout{BaseLayout{FileLineLength: 48}}
	tl := &TextLayout{BaseLayout{FileLineLength: 48}}
	jout := append([]byte(nil), jl.ToBytes(e)...)
	tout := append([]byte(nil), tl.ToBytes(e)...)
	got, ok := vParseJSONLine(jout)
	vAssume(ok && got.kind == 'o' && len(got.vals) == 6) // C07 decides validity of the JSON line
	exp := []byte("[INFO][2025-06-01T12:30:45.123][file.go:10] _t_x||arr=")
	exp = append(exp, got.vals[4].raw...)
	exp = append(exp, "||z=1\n"...)
	vAssert(vBytesEqual(tout, exp), "text-shows-the-identical-compact-json-for-a-custom-array")
	vReach("end")
}

// vPanicEnc: a user-written encoder that fails half-way (inside a nested container).
type vPanicEnc struct{ depth int }

func (p vPanicEnc) EncodeArray(enc Encoder) {
	enc.AppendInt64(1)
	for i := 0; i < p.depth; i++ {
		enc.AppendArrayBegin()
	}
	panic("user encoder failed")
}

func vFormatRecovered(l Layout, e *Event) (panicked bool) {
	defer func() {
		if recover() != nil {
			panicked = true
		}
	}()
	l.ToBytes(e)
	return false
}

//verif:witness H_C08_sequence end
//verif:bound C08 all sequences: an event whose user-written array encoder panics (at nesting depth 0..2, recovered by the caller), then an ordinary event through the same layout (text and JSON, sync.Pool handing back the objects just released): the second event's line is exactly what it yields alone
func H_C08_sequence() {
	depth := vChoose("depth", 3)
	tl := &TextLayout{BaseLayout{FileLineLength: 48}}
	jl := &JSONLayout{BaseLayout{FileLineLength: 48}}
	bad := &Event{Level: InfoLevel, Time: vFixedTime, File: "file.go", Line: 9, Tag: "_t_x"}
	bad.Fields = []Field{Array("arr", vPanicEnc{depth})}
	var l Layout = tl
	if vChoose("layout", 2) == 1 {
		l = jl
	}
	vAssert(vFormatRecovered(l, bad), "harness-encoder-panics")
	e := &Event{Level: InfoLevel, Time: vFixedTime, File: "file.go", Line: 10, Tag: "_t_x"}
	e.Fields = []Field{Msg("hello"), Int("n", 1), Ints("s", []int{1, 2})}
	out := append([]byte(nil), l.ToBytes(e)...)
	if l == Layout(tl) {
		vAssert(string(out) == "[INFO][2025-06-01T12:30:45.123][file.go:10] _t_x||msg=hello||n=1||s=[1,2]\n", "text-line-of-a-later-event-is-its-own")
	} else {
		vAssert(string(out) == "{\"level\":\"info\",\"time\":\"2025-06-01T12:30:45.123\",\"fileLine\":\"file.go:10\",\"tag\":\"_t_x\",\"msg\":\"hello\",\"n\":1,\"s\":[1,2]}\n", "json-line-of-a-later-event-is-its-own")
	}
	vReach("end")
}

//verif:witness H_C08_pooled end
//verif:bound C08 all object reuse across events: three events with scalar, array and object fields through one text layout (optionally a JSON-layout line in between), sync.Pool.Get returning any pooled object or a fresh one, the buffer-reuse cap an arbitrary int32: each text line is exactly what the event yields alone
func H_C08_pooled() {
	restore := vSingleProc()
	defer restore()
	vOpt("poolany", 1)
	savedCap := BufferCap.Load()
	BufferCap.Store(vInt32("bufferCap"))
	defer BufferCap.Store(savedCap)
	tl := &TextLayout{BaseLayout{FileLineLength: 48}}
	jl := &JSONLayout{BaseLayout{FileLineLength: 48}}
	between := vChoose("jsonBetween", 2) == 1
	for i := 1; i <= 3; i++ {
		e := &Event{Level: InfoLevel, Time: vFixedTime, File: "file.go", Line: 10, Tag: "_t_x"}
		e.Fields = []Field{Int("n", i), Ints("s", []int{i, i}), Object("o", Int("p", i)), Msg("m")}
		out := append([]byte(nil), tl.ToBytes(e)...)
		d := string([]byte{byte('0' + i)})
		vAssert(string(out) == "[INFO][2025-06-01T12:30:45.123][file.go:10] _t_x||n="+d+"||s=["+d+","+d+"]||o={\"p\":"+d+"}||msg=m\n", "text-line-is-the-events-own-whatever-the-pools-hand-back")
		if between {
			jl.ToBytes(e)
		}
	}
	vReach("end")
}
