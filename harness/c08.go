package log

import "time"

//verif:witness H_C08_fileline full truncated
//verif:bound C08 quick GetFileLine: width W an arbitrary int (64-bit), file name arbitrary bytes of length 0..12, line 7 and 12345
//verif:bound C08 thorough GetFileLine: width W an arbitrary int (64-bit), file name arbitrary bytes of length 0..40, line 7 and 12345

func H_C08_fileline() {
	w := vInt("W")
	maxN := 12
	if vTier() > 0 {
		maxN = 40
	}
	n := vChoose("len", maxN+1)
	f := vString("file", n)
	line := 7
	lineStr := "7"
	if vChoose("line", 2) == 1 {
		line, lineStr = 12345, "12345"
	}
	l := &TextLayout{BaseLayout{FileLineLength: w}}
	got := l.GetFileLine(&Event{File: f, Line: line}) // real code; a run-time panic is a path outcome
	vObserve("fileLine", got)
	full := f + ":" + lineStr
	if len(full) > w {
		keep := 0 // max(W-3, 0) without wrap-around for W near the minimum int
		if w > 3 {
			keep = w - 3
		}
		want := "..." + full[len(full)-keep:]
		vAssert(got == want, "truncated-form")
		vReach("truncated")
	} else {
		vAssert(got == full, "full-form")
		vReach("full")
	}
}

//verif:witness H_C08_text end
//verif:bound C08 quick text layout vs JSON layout on the event shapes of the C07 harness (0..2 call fields, see C07 bounds)
//verif:bound C08 thorough text layout vs JSON layout on the event shapes of the C07 harness (0..3 call fields, nesting 3)
//verif:assume C08 tag, level name and context string are harness constants without control characters (the claim is about field keys and values); time formatting is time.Format's

// H_C08_text: the text line must be the header plus key=value pairs whose texts are the JSON
// layout's tokens for the same event (string fields, error texts and non-finite floats without quotes).
func H_C08_text() {
	maxFields, maxDepth := 2, 1
	if vTier() > 0 {
		maxFields, maxDepth = 3, 2
	}
	e, want := vGenEvent(maxFields, maxDepth)
	jl := &JSONLayout{BaseLayout{FileLineLength: 48}}
	tl := &TextLayout{BaseLayout{FileLineLength: 48}}
	jout := append([]byte(nil), jl.ToBytes(e)...)
	tout := append([]byte(nil), tl.ToBytes(e)...)
	vObserve("text", tout)
	got, ok := vParseJSONLine(jout)
	vAssume(ok && got.kind == 'o' && len(got.vals) == len(want.vals)) // C07 decides validity of the JSON line
	exp := []byte("[INFO][2025-06-01T12:30:45.123][file.go:10] _t_x||")
	first := 4
	if e.CtxString != "" {
		exp = append(exp, "cs||"...)
		first = 5
	}
	for i := first; i < len(got.vals); i++ {
		if i > first {
			exp = append(exp, "||"...)
		}
		k := got.rawKeys[i]
		exp = append(exp, k[1:len(k)-1]...)
		exp = append(exp, '=')
		v := got.vals[i].raw
		if want.vals[i].unq {
			v = v[1 : len(v)-1]
		}
		exp = append(exp, v...)
	}
	exp = append(exp, '\n')
	vAssert(vBytesEqual(tout, exp), "text-line-equals-header-plus-json-tokens")
	for i := 0; i < len(tout); i++ {
		if i == len(tout)-1 {
			vAssert(tout[i] == '\n', "line-ends-with-newline")
		} else {
			vAssert(tout[i] >= 0x20, "no-raw-control-character-inside-the-line")
		}
	}
	vReach("end")
}

//verif:witness H_C08_header end
//verif:bound C08 all header: two events formatted back to back by both layouts, all 8 levels, timestamps in the same or a different second and in UTC or a fixed zone (+08:00 / -09:30); each line carries its own level name and its own wall-clock time
// H_C08_header: '[LEVEL][yyyy-MM-ddTHH:mm:ss.SSS]' of every event is its own.
func H_C08_header() {
	levels := [8]Level{NoneLevel, TraceLevel, DebugLevel, InfoLevel, WarnLevel, ErrorLevel, PanicLevel, FatalLevel}
	names := [8]string{"NONE", "TRACE", "DEBUG", "INFO", "WARN", "ERROR", "PANIC", "FATAL"}
	zones := [3]*time.Location{nil, time.FixedZone("east", 8*3600), time.FixedZone("west", -(9*3600 + 1800))}
	texts := [2][3]string{
		{"2025-06-01T12:30:45.123", "2025-06-01T20:30:45.123", "2025-06-01T03:00:45.123"},
		{"2025-06-01T12:30:46.123", "2025-06-01T20:30:46.123", "2025-06-01T03:00:46.123"},
	}
	tl := &TextLayout{BaseLayout{FileLineLength: 48}}
	jl := &JSONLayout{BaseLayout{FileLineLength: 48}}
	for ev := 0; ev < 2; ev++ {
		li := vChoose("level", 8)
		zi := vChoose("zone", 3)
		si := 0
		if ev == 1 {
			si = vChoose("second", 2)
		}
		t := vFixedTime.Add(time.Duration(si) * time.Second)
		if zones[zi] != nil {
			t = t.In(zones[zi])
		}
		e := &Event{Level: levels[li], Time: t, File: "f.go", Line: 1, Tag: "_t_x", Fields: []Field{Msg("m")}}
		tout := append([]byte(nil), tl.ToBytes(e)...)
		jout := append([]byte(nil), jl.ToBytes(e)...)
		wantHead := "[" + names[li] + "][" + texts[si][zi] + "][f.go:1] _t_x||msg=m\n"
		vAssert(string(tout) == wantHead, "text-header-is-the-events-own-level-and-time")
		g, ok := vParseJSONLine(jout)
		vAssert(ok && len(g.vals) == 5, "json-line-valid")
		if ok && len(g.vals) == 5 {
			vAssert(vEqualCPs(g.vals[1].s, vCPs(texts[si][zi])), "json-time-is-the-events-own-time")
		}
	}
	vReach("end")
}
