package log

//verif:witness H_C08_fileline full truncated
//verif:bound C08 quick GetFileLine: width W an arbitrary int (64-bit), file name arbitrary bytes of length 0..12, line 7 and 12345
//verif:bound C08 thorough GetFileLine: width W an arbitrary int (64-bit), file name arbitrary bytes of length 0..40, line 7 and 12345

func H_C08_fileline() {
	w := vInt("W")
	maxN := 12
	if vTier() > 0 {
		maxN = 40
	}
	n := vChoose("len", maxN+1)
	f := vString("file", n)
	line := 7
	lineStr := "7"
	if vChoose("line", 2) == 1 {
		line, lineStr = 12345, "12345"
	}
	l := &TextLayout{BaseLayout{FileLineLength: w}}
	got := l.GetFileLine(&Event{File: f, Line: line}) // real code; a run-time panic is a path outcome
	full := f + ":" + lineStr
	if len(full) > w {
		keep := 0 // max(W-3, 0) without wrap-around for W near the minimum int
		if w > 3 {
			keep = w - 3
		}
		want := "..." + full[len(full)-keep:]
		vAssert(got == want, "truncated-form")
		vReach("truncated")
	} else {
		vAssert(got == full, "full-form")
		vReach("full")
	}
}
