package log

//verif:witness H_C08_fileline full truncated
//verif:bound C08 quick GetFileLine: width W an arbitrary int (64-bit), file name arbitrary bytes of length 0..12, line 7 and 12345
//verif:bound C08 thorough GetFileLine: width W an arbitrary int (64-bit), file name arbitrary bytes of length 0..40, line 7 and 12345

func H_C08_fileline() {
	w := vInt("W")
	maxN := 12
	if vTier() > 0 {
		maxN = 40
	}
	n := vChoose("len", maxN+1)
	f := vString("file", n)
	line := 7
	lineStr := "7"
	if vChoose("line", 2) == 1 {
		line, lineStr = 12345, "12345"
	}
	l := &TextLayout{BaseLayout{FileLineLength: w}}
	got := l.GetFileLine(&Event{File: f, Line: line}) // real code; a run-time panic is a path outcome
	vObserve("fileLine", got)
	full := f + ":" + lineStr
	if len(full) > w {
		keep := 0 // max(W-3, 0) without wrap-around for W near the minimum int
		if w > 3 {
			keep = w - 3
		}
		want := "..." + full[len(full)-keep:]
		vAssert(got == want, "truncated-form")
		vReach("truncated")
	} else {
		vAssert(got == full, "full-form")
		vReach("full")
	}
}

//verif:witness H_C08_text end
//verif:bound C08 quick text layout vs JSON layout on the event shapes of the C07 harness (0..2 call fields, see C07 bounds)
//verif:bound C08 thorough text layout vs JSON layout on the event shapes of the C07 harness (0..3 call fields, nesting 3)
//verif:assume C08 tag, level name and context string are harness constants without control characters (the claim is about field keys and values); time formatting is time.Format's

// H_C08_text: the text line must be the header plus key=value pairs whose texts are the JSON
// layout's tokens for the same event (string fields, error texts and non-finite floats without quotes).
func H_C08_text() {
	maxFields, maxDepth := 2, 1
	if vTier() > 0 {
		maxFields, maxDepth = 3, 2
	}
	e, want := vGenEvent(maxFields, maxDepth)
	jl := &JSONLayout{BaseLayout{FileLineLength: 48}}
	tl := &TextLayout{BaseLayout{FileLineLength: 48}}
	jout := append([]byte(nil), jl.ToBytes(e)...)
	tout := append([]byte(nil), tl.ToBytes(e)...)
	vObserve("text", tout)
	got, ok := vParseJSONLine(jout)
	vAssume(ok && got.kind == 'o' && len(got.vals) == len(want.vals)) // C07 decides validity of the JSON line
	exp := []byte("[INFO][2025-06-01T12:30:45.123][file.go:10] _t_x||")
	first := 4
	if e.CtxString != "" {
		exp = append(exp, "cs||"...)
		first = 5
	}
	for i := first; i < len(got.vals); i++ {
		if i > first {
			exp = append(exp, "||"...)
		}
		k := got.rawKeys[i]
		exp = append(exp, k[1:len(k)-1]...)
		exp = append(exp, '=')
		v := got.vals[i].raw
		if want.vals[i].unq {
			v = v[1 : len(v)-1]
		}
		exp = append(exp, v...)
	}
	exp = append(exp, '\n')
	vAssert(vBytesEqual(tout, exp), "text-line-equals-header-plus-json-tokens")
	for i := 0; i < len(tout); i++ {
		if i == len(tout)-1 {
			vAssert(tout[i] == '\n', "line-ends-with-newline")
		} else {
			vAssert(tout[i] >= 0x20, "no-raw-control-character-inside-the-line")
		}
	}
	vReach("end")
}
