package expr

func init() {
	// deserialise the ATNs once, in the engine's init phase (shared by every path)
	ExprLexerInit()
	ExprParserInit()
}

var vAlphabet = []byte("Ab1{}=,\"\\.[]/ -")

//verif:witness H_C17_total returned
// H_C17_total: every string over the alphabet up to the length bound: Parse terminates with
// (map, nil) xor (nil, error) and never panics.
func H_C17_total() {
	vOpt("loop", 2000)
	maxN := 3
	if vTier() > 0 {
		maxN = 5
	}
	n := vChoose("len", maxN+1)
	in := vString("in", n)
	for i := 0; i < n; i++ {
		ok := false
		for _, a := range vAlphabet {
			ok = vOr(ok, in[i] == a)
		}
		vAssume(ok)
	}
	m, err := Parse(in) // a panic escaping Parse is a path outcome
	vObserve("isError", err != nil)
	vObserve("keys", len(m))
	vAssert((m != nil && err == nil) || (m == nil && err != nil) || (n == 0 || vBlank(in)) && m == nil && err == nil, "map-xor-error")
	vReach("returned")
}

func vBlank(s string) bool {
	for i := 0; i < len(s); i++ {
		if s[i] != ' ' && s[i] != '\t' && s[i] != '\n' && s[i] != '\r' {
			return false
		}
	}
	return true
}

//verif:witness H_C17_flatten end
//verif:bound C17 quick totality: every string of length 0..3 over the 15-symbol alphabet 'Ab1{}=,"\\.[]/ -' through the real lexer, parser (ANTLR runtime executed from SSA) and listener; flattening: generated expressions Type{...} with 0..2 assignments, 5 path shapes (incl. a field literally named 'type': the later assignment wins over the type name), 5 value kinds (identifier, string with 0..2 characters each a plain character from {x, space, /, {, newline} or an escape \\" \\\\ \\/ \\b \\f \\n \\r \\t, integer, float, nested expression with 0..1 assignment), 3 spacing modes, optional trailing comma, duplicate keys
//verif:bound C17 thorough totality: every string of length 0..5 over the alphabet; flattening with 0..2 assignments (all later-value and spacing combinations) and nesting depth 2 (5 path shapes at the top level, 3 at depth 1, 2 at depth 2)
//verif:assume C17 inputs are ASCII (the engine converts symbolic strings to runes for ASCII bytes only); longer inputs and other alphabets are outside the bound
//verif:assume C17 the ANTLR runtime and the generated recogniser are executed as they are (no stub); their adaptive-prediction caches start from the state left by the engine's init phase on every path

type vAsg struct {
	path   string
	val    string // value text as written
	want   string // expected flattened value (non-nested)
	nested *vEx
}

type vEx struct {
	typ  string
	asgs []vAsg
}

var vPaths = [5]string{"a", "a.b", "a[0]", "a.b[1].c", "type"}

// vStringLit: a string literal the lexer admits and the text it denotes.
func vStringLit(name string) (lit, want string) {
	n := vChoose(name+"len", 3)
	lit = "\""
	for i := 0; i < n; i++ {
		if vChoose(name+"esc", 2) == 0 {
			c := [5]byte{'x', ' ', '/', '{', '\n'}[vChoose(name+"plain", 5)]
			lit += string([]byte{c})
			want += string([]byte{c})
		} else {
			k := vChoose(name+"escape", 8)
			lit += "\\" + string([]byte{"\"\\/bfnrt"[k]})
			want += string([]byte{"\"\\/\b\f\n\r\t"[k]})
		}
	}
	return lit + "\"", want
}

// vGenEx: the first assignment varies over all path shapes and value kinds; later ones use the
// path "z" (or repeat the first path: later assignment wins) and one of five fixed values.
func vGenEx(name string, depth, maxAsg, maxDepth int) *vEx {
	e := &vEx{typ: "T"}
	if depth == 0 {
		e.typ = [3]string{"T", "Type_1", "_x"}[vChoose(name+"type", 3)]
	}
	n := vChoose(name+"n", maxAsg+1)
	for i := 0; i < n; i++ {
		var a vAsg
		if i == 0 {
			if depth == 0 || vTier() == 0 {
				a.path = vPaths[vChoose(name+"path", 5)]
			} else if depth == 1 {
				a.path = [3]string{"a", "a.b[1].c", "type"}[vChoose(name+"path", 3)]
			} else {
				a.path = [2]string{"a[0]", "type"}[vChoose(name+"path", 2)]
			}
			nk := 5
			if depth >= maxDepth {
				nk = 4
			}
			switch vChoose(name+"kind", nk) {
			case 0:
				a.val = [2]string{"ident", "true"}[vChoose(name+"ident", 2)]
				a.want = a.val
			case 1:
				a.val, a.want = "\"s t\"", "s t"
			case 2:
				a.val = [3]string{"42", "-7", "0x1F"}[vChoose(name+"int", 3)]
				a.want = a.val
			case 3:
				a.val = [3]string{"1.5", ".5e3", "+2E-1"}[vChoose(name+"float", 3)]
				a.want = a.val
			default:
				a.nested = vGenEx(name+"n", depth+1, 1, maxDepth)
			}
		} else {
			a.path = "z"
			if vChoose(name+"dup", 2) == 1 {
				a.path = e.asgs[0].path // same key again: the later assignment wins
			}
			k := 0
			if vTier() > 0 {
				k = vChoose(name+"later", 3)
			}
			a.val = [3]string{"v2", "\"q\"", "9"}[k]
			a.want = [3]string{"v2", "q", "9"}[k]
		}
		e.asgs = append(e.asgs, a)
	}
	return e
}

func vRender(e *vEx, sp string, trailing bool) string {
	s := e.typ + sp + "{" + sp
	for i, a := range e.asgs {
		if i > 0 {
			s += "," + sp
		}
		s += a.path + sp + "=" + sp
		if a.nested != nil {
			s += vRender(a.nested, sp, false)
		} else {
			s += a.val
		}
		s += sp
	}
	if trailing && len(e.asgs) > 0 {
		s += "," + sp
	}
	return s + "}"
}

// vFlatten: the reference flattener (type keys prefixed by the enclosing path, later assignment wins).
func vFlatten(e *vEx, prefix string, out map[string]string) {
	tk := "type"
	if prefix != "" {
		tk = prefix + ".type"
	}
	out[tk] = e.typ
	for _, a := range e.asgs {
		k := a.path
		if prefix != "" {
			k = prefix + "." + a.path
		}
		if a.nested != nil {
			vFlatten(a.nested, k, out)
		} else {
			out[k] = a.want
		}
	}
}

//verif:witness H_C17_strings end
//verif:bound C17 all string literals: every literal of 0..2 characters the lexer admits (5 plain characters, 8 escapes), alone and followed in the same expression (top level and nested) by a second literal (with an escape, empty, or ending in an escaped quote): each is unquoted on its own
// H_C17_strings: every string literal of 0..2 characters the lexer admits (plain characters
// from a boundary set, all eight escapes) is accepted and unquoted as written.
func H_C17_strings() {
	vOpt("loop", 2000)
	lit, want := vStringLit("s")
	got, err := Parse("T{a=" + lit + "}")
	vAssert(err == nil && got != nil, "string-literal-admitted-by-the-lexer-is-accepted")
	if err == nil && got != nil {
		vAssert(got["a"] == want && got["type"] == "T" && len(got) == 2, "string-literal-unquoted-as-written")
	}
	// the same literal followed by further literals in one expression (also nested): each is unquoted on its own
	which := vChoose("second", 3)
	second := [3]string{"\"p\\tq\"", "\"\"", "\"z\\\"\""}[which]
	secondWant := [3]string{"p\tq", "", "z\""}[which]
	got2, err2 := Parse("T{a=" + lit + ",b=" + second + ",c=U{d=" + second + "}}")
	vAssert(err2 == nil && got2 != nil, "several-string-literals-accepted")
	if err2 == nil && got2 != nil {
		vAssert(got2["a"] == want && got2["b"] == secondWant && got2["c.d"] == secondWant && got2["c.type"] == "U" && len(got2) == 5, "each-string-literal-unquoted-on-its-own")
	}
	vReach("end")
}

func H_C17_flatten() {
	vOpt("loop", 2000)
	maxAsg, maxDepth := 2, 1
	if vTier() > 0 {
		maxAsg, maxDepth = 2, 2
	}
	e := vGenEx("e", 0, maxAsg, maxDepth)
	sp := [3]string{"", " ", "\n\t"}[vChoose("spacing", 3)]
	if vTier() == 0 && sp == " " && len(e.asgs) == 2 {
		return // quick tier: two-assignment expressions with two of the three spacing modes
	}
	text := sp + vRender(e, sp, vChoose("trailing", 2) == 1) + sp
	got, err := Parse(text)
	vObserve("keys", len(got))
	vAssert(err == nil && got != nil, "well-formed-expression-is-accepted")
	if err == nil && got != nil {
		want := map[string]string{}
		vFlatten(e, "", want)
		vAssert(len(got) == len(want), "exactly-the-expected-keys")
		for k, v := range want {
			g, ok := got[k]
			vAssert(ok && g == v, "path-maps-to-value-text-with-strings-unquoted")
		}
	}
	vReach("end")
}

//verif:witness H_C17_sequence end
//verif:bound C17 all sequences: a malformed input (8 shapes incl. those that make the recogniser panic internally) followed by a well-formed one: the second call is unaffected by the first
// H_C17_sequence: Parse keeps no state between calls.
func H_C17_sequence() {
	vOpt("loop", 2000)
	bad := [8]string{"}", "=", "1", "L{a=b{c}}", "L{a.b[=1}", "L{", "\"x\"", "L{a=1,,}"}[vChoose("bad", 8)]
	m1, err1 := Parse(bad)
	vAssert(m1 == nil && err1 != nil, "malformed-input-is-an-error-without-a-map")
	m2, err2 := Parse("T{a=1}")
	vAssert(err2 == nil && m2 != nil && m2["type"] == "T" && m2["a"] == "1" && len(m2) == 2, "a-later-well-formed-input-is-unaffected")
	vReach("end")
}
