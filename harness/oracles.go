package log

// Reference oracles shared by several harnesses. Written from RFC 8259 and Unicode table
// 3-7 (D92), independent of unicode/utf8 and of the code under test.

// vWellFormedLen: length of the well-formed UTF-8 sequence starting at s[i], or 0.
func vWellFormedLen(s []byte, i int) int {
	b0 := s[i]
	rem := len(s) - i
	switch {
	case b0 <= 0x7F:
		return 1
	case 0xC2 <= b0 && b0 <= 0xDF:
		if rem > 1 && vCont(s[i+1], 0x80, 0xBF) {
			return 2
		}
	case b0 == 0xE0:
		if rem > 2 && vCont(s[i+1], 0xA0, 0xBF) && vCont(s[i+2], 0x80, 0xBF) {
			return 3
		}
	case (0xE1 <= b0 && b0 <= 0xEC) || b0 == 0xEE || b0 == 0xEF:
		if rem > 2 && vCont(s[i+1], 0x80, 0xBF) && vCont(s[i+2], 0x80, 0xBF) {
			return 3
		}
	case b0 == 0xED:
		if rem > 2 && vCont(s[i+1], 0x80, 0x9F) && vCont(s[i+2], 0x80, 0xBF) {
			return 3
		}
	case b0 == 0xF0:
		if rem > 3 && vCont(s[i+1], 0x90, 0xBF) && vCont(s[i+2], 0x80, 0xBF) && vCont(s[i+3], 0x80, 0xBF) {
			return 4
		}
	case 0xF1 <= b0 && b0 <= 0xF3:
		if rem > 3 && vCont(s[i+1], 0x80, 0xBF) && vCont(s[i+2], 0x80, 0xBF) && vCont(s[i+3], 0x80, 0xBF) {
			return 4
		}
	case b0 == 0xF4:
		if rem > 3 && vCont(s[i+1], 0x80, 0x8F) && vCont(s[i+2], 0x80, 0xBF) && vCont(s[i+3], 0x80, 0xBF) {
			return 4
		}
	}
	return 0
}

func vCont(b, lo, hi byte) bool { return lo <= b && b <= hi }

// vCodePoint decodes a well-formed sequence of length l at s[i].
func vCodePoint(s []byte, i, l int) int32 {
	switch l {
	case 1:
		return int32(s[i])
	case 2:
		return int32(s[i]&0x1F)<<6 | int32(s[i+1]&0x3F)
	case 3:
		return int32(s[i]&0x0F)<<12 | int32(s[i+1]&0x3F)<<6 | int32(s[i+2]&0x3F)
	}
	return int32(s[i]&0x07)<<18 | int32(s[i+1]&0x3F)<<12 | int32(s[i+2]&0x3F)<<6 | int32(s[i+3]&0x3F)
}

// vSanitize: the code points a conforming decoder must obtain: well-formed sequences
// decode to their code point, every other single byte becomes U+FFFD.
func vSanitize(in []byte) []int32 {
	var out []int32
	for i := 0; i < len(in); {
		l := vWellFormedLen(in, i)
		if l == 0 {
			out = append(out, 0xFFFD)
			i++
			continue
		}
		out = append(out, vCodePoint(in, i, l))
		i += l
	}
	return out
}

func vHexVal(c byte) int32 {
	switch {
	case '0' <= c && c <= '9':
		return int32(c - '0')
	case 'a' <= c && c <= 'f':
		return int32(c-'a') + 10
	case 'A' <= c && c <= 'F':
		return int32(c-'A') + 10
	}
	return -1
}

// vDecodeJSONStringBody decodes the characters between the quotes of a JSON string
// (RFC 8259 section 7). ok=false if body is not a valid string body.
func vDecodeJSONStringBody(b []byte) (cps []int32, ok bool) {
	for i := 0; i < len(b); {
		c := b[i]
		switch {
		case c < 0x20 || c == '"':
			return nil, false
		case c == '\\':
			if i+1 >= len(b) {
				return nil, false
			}
			e := b[i+1]
			switch e {
			case '"', '\\', '/':
				cps = append(cps, int32(e))
				i += 2
			case 'b':
				cps = append(cps, 8)
				i += 2
			case 'f':
				cps = append(cps, 12)
				i += 2
			case 'n':
				cps = append(cps, 10)
				i += 2
			case 'r':
				cps = append(cps, 13)
				i += 2
			case 't':
				cps = append(cps, 9)
				i += 2
			case 'u':
				if i+6 > len(b) {
					return nil, false
				}
				var v int32
				for k := 2; k < 6; k++ {
					h := vHexVal(b[i+k])
					if h < 0 {
						return nil, false
					}
					v = v<<4 | h
				}
				i += 6
				if 0xD800 <= v && v <= 0xDBFF {
					// must be followed by a low surrogate escape
					if i+6 > len(b) || b[i] != '\\' || b[i+1] != 'u' {
						return nil, false
					}
					var lo int32
					for k := 2; k < 6; k++ {
						h := vHexVal(b[i+k])
						if h < 0 {
							return nil, false
						}
						lo = lo<<4 | h
					}
					if lo < 0xDC00 || lo > 0xDFFF {
						return nil, false
					}
					i += 6
					v = 0x10000 + (v-0xD800)<<10 + (lo - 0xDC00)
				} else if 0xDC00 <= v && v <= 0xDFFF {
					return nil, false
				}
				cps = append(cps, v)
			default:
				return nil, false
			}
		default:
			l := vWellFormedLen(b, i)
			if l == 0 {
				return nil, false
			}
			cps = append(cps, vCodePoint(b, i, l))
			i += l
		}
	}
	return cps, true
}

func vEqualCPs(a, b []int32) bool {
	if len(a) != len(b) {
		return false
	}
	for i := range a {
		if a[i] != b[i] {
			return false
		}
	}
	return true
}
