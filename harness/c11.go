package log

import (
	"context"
	"runtime"
)

//verif:witness H_C11_caller end
//verif:bound C11 all 15 entry points (Record with skip 1 directly and skip 2 through a helper) x {default, fast} lookup x {plain call, closure, deferred closure, goroutine} x first call / repeated call from the same site (frame-cache hit) x caller lookup enabled/disabled
//verif:assume C11 the call stack is the interpreter's: runtime.Caller(k)/runtime.Callers(k,..)/CallersFrames resolve k frames up the interpreted stack to the position of the pending call instruction (documented contract of package runtime); inlining, method-value wrappers and generic helpers are outside the claim
//verif:assume C11 counterexamples are replayed natively against the real runtime, which confirms them for the call shapes used here

var vWantFile string
var vWantLine int

// vLogAt logs through entry point ep; the expected location is taken on the same source line.
func vLogAt(ep int, tag *Tag) {
	ctx := context.Background()
	fn := func() []Field { return []Field{Msg("m")} }
	switch ep {
	case 0:
		_, vWantFile, vWantLine, _ = runtime.Caller(0); Trace(ctx, tag, fn)
	case 1:
		_, vWantFile, vWantLine, _ = runtime.Caller(0); Tracef(ctx, tag, "x")
	case 2:
		_, vWantFile, vWantLine, _ = runtime.Caller(0); Debug(ctx, tag, fn)
	case 3:
		_, vWantFile, vWantLine, _ = runtime.Caller(0); Debugf(ctx, tag, "x")
	case 4:
		_, vWantFile, vWantLine, _ = runtime.Caller(0); Info(ctx, tag, Msg("m"))
	case 5:
		_, vWantFile, vWantLine, _ = runtime.Caller(0); Infof(ctx, tag, "x")
	case 6:
		_, vWantFile, vWantLine, _ = runtime.Caller(0); Warn(ctx, tag, Msg("m"))
	case 7:
		_, vWantFile, vWantLine, _ = runtime.Caller(0); Warnf(ctx, tag, "x")
	case 8:
		_, vWantFile, vWantLine, _ = runtime.Caller(0); Error(ctx, tag, Msg("m"))
	case 9:
		_, vWantFile, vWantLine, _ = runtime.Caller(0); Errorf(ctx, tag, "x")
	case 10:
		_, vWantFile, vWantLine, _ = runtime.Caller(0); Panic(ctx, tag, Msg("m"))
	case 11:
		_, vWantFile, vWantLine, _ = runtime.Caller(0); Panicf(ctx, tag, "x")
	case 12:
		_, vWantFile, vWantLine, _ = runtime.Caller(0); Fatal(ctx, tag, Msg("m"))
	case 13:
		_, vWantFile, vWantLine, _ = runtime.Caller(0); Fatalf(ctx, tag, "x")
	case 14:
		_, vWantFile, vWantLine, _ = runtime.Caller(0); Record(ctx, InfoLevel, tag, 1, Msg("m"))
	default:
		_, vWantFile, vWantLine, _ = runtime.Caller(0); vRecordHelper(ctx, tag)
	}
}

//go:noinline
func vRecordHelper(ctx context.Context, tag *Tag) {
	Record(ctx, InfoLevel, tag, 2, Msg("m")) // skip 2: the caller of this helper
}

var vChainFile [4]string
var vChainLine [4]int

//go:noinline
func vChain1(ctx context.Context, tag *Tag, skip int) {
	_, vChainFile[1], vChainLine[1], _ = runtime.Caller(0); Record(ctx, InfoLevel, tag, skip, Msg("m"))
}

//go:noinline
func vChain2(ctx context.Context, tag *Tag, skip int) {
	_, vChainFile[2], vChainLine[2], _ = runtime.Caller(0); vChain1(ctx, tag, skip)
}

//go:noinline
func vChain3(ctx context.Context, tag *Tag, skip int) {
	_, vChainFile[3], vChainLine[3], _ = runtime.Caller(0); vChain2(ctx, tag, skip)
}

//verif:witness H_C11_skip end
// H_C11_skip: Record with an arbitrary skip in 1..3 through a chain of three helpers.
func H_C11_skip() {
	savedEnable, savedFast := enableCaller, fastCaller
	defer func() { enableCaller, fastCaller = savedEnable, savedFast }()
	enableCaller = true
	fastCaller = vChoose("fast", 2) == 1
	app := &vRecAppender{}
	all := LevelRange{MinLevel: NoneLevel, MaxLevel: MaxLevel}
	logger := &SyncLogger{LoggerBase: LoggerBase{Name: "l", Level: all}}
	logger.AppenderRefs.AppenderRefs = []*AppenderRef{{Appender: app, Level: all}}
	tag := &Tag{tag: "_t_x", logger: logger}
	skip := vInt("skip")
	vAssume(1 <= skip && skip <= 3)
	vChain3(context.Background(), tag, skip)
	vAssert(app.appends == 1, "event-emitted")
	if app.appends == 1 {
		e := app.events[0]
		k := vConcretize(skip)
		vAssert(e.File == vChainFile[k] && e.Line == vChainLine[k], "location-is-the-frame-chosen-by-skip")
	}
	vReach("end")
}

func H_C11_caller() {
	savedEnable, savedFast := enableCaller, fastCaller
	defer func() { enableCaller, fastCaller = savedEnable, savedFast }()
	enableCaller = vChoose("enable", 2) == 1
	fastCaller = vChoose("fast", 2) == 1
	app := &vRecAppender{}
	all := LevelRange{MinLevel: NoneLevel, MaxLevel: MaxLevel}
	logger := &SyncLogger{LoggerBase: LoggerBase{Name: "l", Level: all}}
	logger.AppenderRefs.AppenderRefs = []*AppenderRef{{Appender: app, Level: all}}
	tag := &Tag{tag: "_t_x", logger: logger}
	ep := vChoose("entry", 16)
	shape := vChoose("shape", 4)
	repeat := 1 + vChoose("repeat", 2)
	for r := 0; r < repeat; r++ {
		switch shape {
		case 0:
			vLogAt(ep, tag)
		case 1:
			func() { vLogAt(ep, tag) }()
		case 2:
			func() {
				defer func() { vLogAt(ep, tag) }()
			}()
		default:
			done := make(chan int, 1)
			go func() { vLogAt(ep, tag); done <- 1 }()
			<-done
		}
		vAssert(app.appends == r+1, "event-emitted")
		if app.appends != r+1 {
			return
		}
		e := app.events[r]
		if !enableCaller {
			vAssert(e.File == "" && e.Line == 0, "location-empty-when-caller-lookup-disabled")
		} else {
			vAssert(e.File == vWantFile && e.Line == vWantLine, "location-is-the-callers-statement")
		}
	}
	vReach("end")
}

//verif:witness H_C11_sequence end
//verif:bound C11 all sequences: four log calls from four adjacent call sites in one function (fast or default mode), each record must carry its own line (modelled program counters of adjacent call sites are 5 apart, the size of a call instruction); every order of visiting two call sites five times (32 orders: revisits after another site, repeats); a call site at a line number above 65535 visited three times; caller lookup switched on->off and off->on between two events through a sync logger that recycles its Event objects

var vSeqTag *Tag

//go:noinline
func vRec2() { Record(context.Background(), InfoLevel, vSeqTag, 2, Msg("m")) }

// vFourAdj: four argument-less calls on consecutive lines (natively 5 bytes apart each).
//
//go:noinline
func vFourAdj(lines *[4]int) {
	_, _, l0, _ := runtime.Caller(0)
	vRec2()
	vRec2()
	vRec2()
	vRec2()
	for i := range lines {
		lines[i] = l0 + 1 + i
	}
}

// vTwoSites: two call sites that a caller can visit in any order; returns the line of the one used.
//
//go:noinline
func vTwoSites(which int, tag *Tag) int {
	_, _, l0, _ := runtime.Caller(0)
	if which == 0 {
		Info(context.Background(), tag, Msg("a"))
		return l0 + 2
	}
	Info(context.Background(), tag, Msg("b"))
	return l0 + 5
}

func H_C11_sequence() {
	savedEnable, savedFast := enableCaller, fastCaller
	defer func() { enableCaller, fastCaller = savedEnable, savedFast }()
	app := &vRecAppender{}
	all := LevelRange{MinLevel: NoneLevel, MaxLevel: MaxLevel}
	logger := &SyncLogger{LoggerBase: LoggerBase{Name: "l", Level: all}}
	logger.AppenderRefs.AppenderRefs = []*AppenderRef{{Appender: app, Level: all}}
	tag := &Tag{tag: "_t_x", logger: logger}
	fastCaller = vChoose("fast", 2) == 1
	scenario := vChoose("scenario", 4)
	if scenario == 3 {
		// a call site beyond line 65535, visited three times (cache miss, then hits)
		enableCaller = true
		for i := 0; i < 3; i++ {
			want := vFarSite(tag)
			vAssert(want > 65535 && app.appends == i+1 && app.events[i].Line == want, "far-call-site-reports-its-own-line-on-every-visit")
		}
	} else if scenario == 2 {
		// every order of visiting two call sites five times (revisits after another site, repeats)
		enableCaller = true
		var want [5]int
		for i := range want {
			want[i] = vTwoSites(vChoose("site", 2), tag)
		}
		vAssert(app.appends == 5, "events-emitted")
		if app.appends == 5 {
			for i := range want {
				vAssert(app.events[i].Line == want[i], "revisited-call-site-reports-its-own-line")
			}
		}
	} else if scenario == 0 {
		enableCaller = true
		var lines [4]int
		vSeqTag = tag
		vFourAdj(&lines)
		vFourAdj(&lines) // second round: frame-cache hits
		vAssert(app.appends == 8, "events-emitted")
		if app.appends == 8 {
			for i := 0; i < 8; i++ {
				vAssert(app.events[i].Line == lines[i%4], "each-call-site-reports-its-own-line")
			}
		}
	} else {
		first := vChoose("firstEnabled", 2) == 1
		enableCaller = first
		vLogAt(4, tag)
		enableCaller = !first
		vLogAt(8, tag)
		vAssert(app.appends == 2, "events-emitted")
		if app.appends == 2 {
			for i, on := range [2]bool{first, !first} {
				e := app.events[i]
				if on {
					vAssert(e.File != "" && e.Line != 0, "location-present-when-enabled")
				} else {
					vAssert(e.File == "" && e.Line == 0, "location-empty-when-caller-lookup-disabled")
				}
			}
		}
	}
	vReach("end")
}

//go:noinline
func vSiteA(tag *Tag) int {
	_, _, l0, _ := runtime.Caller(0)
	Info(context.Background(), tag, Msg("a"))
	return l0 + 1
}

//go:noinline
func vSiteB(tag *Tag) int {
	_, _, l0, _ := runtime.Caller(0)
	Warn(context.Background(), tag, Msg("b"))
	return l0 + 1
}

//verif:witness H_C11_concurrent end
//verif:bound C11 all two goroutines logging at the same time from two call sites through two entry points (default or fast lookup); every access to a package-level variable of the library is a scheduling point (1 pre-emptive switch): each record carries the line of its own call site
//verif:engine-only H_C11_concurrent
func H_C11_concurrent() {
	vOpt("globalrace", 1)
	vOpt("schedall", 1)
	vOpt("preempt", 1)
	savedEnable, savedFast := enableCaller, fastCaller
	defer func() { enableCaller, fastCaller = savedEnable, savedFast }()
	enableCaller = true
	fastCaller = vChoose("fast", 2) == 1
	all := LevelRange{MinLevel: NoneLevel, MaxLevel: MaxLevel}
	var apps [2]*vRecAppender
	var tags [2]*Tag
	for g := 0; g < 2; g++ {
		apps[g] = &vRecAppender{}
		logger := &SyncLogger{LoggerBase: LoggerBase{Name: "l", Level: all}}
		logger.AppenderRefs.AppenderRefs = []*AppenderRef{{Appender: apps[g], Level: all}}
		tags[g] = &Tag{tag: "_t_x", logger: logger}
	}
	var want [2]int
	done := make(chan int, 2)
	go func() { want[0] = vSiteA(tags[0]); done <- 1 }()
	go func() { want[1] = vSiteB(tags[1]); done <- 1 }()
	<-done
	<-done
	for g := 0; g < 2; g++ {
		vAssert(apps[g].appends == 1 && apps[g].events[0].Line == want[g], "concurrent-call-sites-report-their-own-lines")
	}
	vReach("end")
}
