package log

import (
	"context"
	"time"
)

//verif:witness H_C10_hooks emitted suppressed
//verif:witness H_C10_builtin end
//verif:bound C10 all 7 entry points (Trace, Debug lazy; Info, Warnf, Errorf, Fatal, Record with arbitrary int32 level) x 8 hook set/unset patterns x arbitrary logger range (int32 bounds), sync logger; built-in console logger for an unbound tag
//verif:assume C10 the remaining f-variants share their code path with the variants covered (checked separately by C01 entry-point harness for levels)

func H_C10_hooks() {
	var nTime, nStr, nFields, nLazy int
	var ctxTime, ctxStr, ctxFields context.Context
	hookTime := time.Unix(1700000000, 0)
	setTime := vChoose("timeHook", 2) == 1
	setStr := vChoose("strHook", 2) == 1
	setFields := vChoose("fieldsHook", 2) == 1
	TimeNow, StringFromContext, FieldsFromContext = nil, nil, nil
	if setTime {
		TimeNow = func(ctx context.Context) time.Time { nTime++; ctxTime = ctx; return hookTime }
	}
	if setStr {
		StringFromContext = func(ctx context.Context) string { nStr++; ctxStr = ctx; return "ctx-string" }
	}
	if setFields {
		FieldsFromContext = func(ctx context.Context) []Field {
			nFields++
			ctxFields = ctx
			return []Field{String("c1", "x"), Int("c2", 2)}
		}
	}
	defer func() { TimeNow, StringFromContext, FieldsFromContext = nil, nil, nil }()

	app := &vRecAppender{}
	lmin, lmax := vInt32("lmin"), vInt32("lmax")
	logger := &SyncLogger{LoggerBase: LoggerBase{Name: "l", Level: LevelRange{MinLevel: Level{code: lmin, name: "A"}, MaxLevel: Level{code: lmax, name: "B"}}}}
	logger.AppenderRefs.AppenderRefs = []*AppenderRef{{Appender: app, Level: LevelRange{MinLevel: Level{code: -2147483648, name: "LO"}, MaxLevel: Level{code: 2147483647, name: "HI"}}}}
	tag := &Tag{tag: "_t_x", logger: logger}
	lazy := func() []Field { nLazy++; return []Field{Msg("lazy"), Int("n", 1)} }
	var code int32
	isLazy := false
	nOwn := 2
	switch vChoose("entry", 7) {
	case 0:
		Trace(vCtx, tag, lazy)
		code, isLazy = 100, true
	case 1:
		Debug(vCtx, tag, lazy)
		code, isLazy = 200, true
	case 2:
		Info(vCtx, tag, Msg("m"), Int("n", 1))
		code = 300
	case 3:
		Warnf(vCtx, tag, "w %d", 1)
		code, nOwn = 400, 1
	case 4:
		Errorf(vCtx, tag, "e %d", 1)
		code, nOwn = 500, 1
	case 5:
		Fatal(vCtx, tag, Msg("m"), Int("n", 1))
		code = 700
	default:
		code = vInt32("L")
		Record(vCtx, Level{code: code, name: "CUSTOM"}, tag, 1, Msg("m"), Int("n", 1))
	}
	enabled := lmin <= code && code < lmax
	if !enabled {
		vAssert(app.appends == 0, "disabled-nothing-emitted")
		vAssert(nTime == 0 && nStr == 0 && nFields == 0, "disabled-hooks-not-invoked")
		vAssert(nLazy == 0, "disabled-lazy-generator-not-invoked")
		vReach("suppressed")
		return
	}
	vAssert(app.appends == 1, "enabled-emitted-once")
	if isLazy {
		vAssert(nLazy == 1, "lazy-generator-invoked-exactly-once")
	}
	if setTime {
		vAssert(nTime == 1, "time-hook-exactly-once")
		vAssert(ctxTime == vCtx, "time-hook-gets-callers-context")
	}
	if setStr {
		vAssert(nStr == 1, "string-hook-exactly-once")
		vAssert(ctxStr == vCtx, "string-hook-gets-callers-context")
	}
	if setFields {
		vAssert(nFields == 1, "fields-hook-exactly-once")
		vAssert(ctxFields == vCtx, "fields-hook-gets-callers-context")
	}
	if app.appends == 1 {
		e := app.events[0]
		if setTime {
			vAssert(e.Time == hookTime, "record-carries-hook-time")
		}
		if setStr {
			vAssert(e.CtxString == "ctx-string", "record-carries-context-string")
		} else {
			vAssert(e.CtxString == "", "no-context-string-without-hook")
		}
		if setFields {
			vAssert(len(e.CtxFields) == 2 && e.CtxFields[0].Key == "c1" && e.CtxFields[1].Key == "c2", "record-carries-context-fields-in-order")
		} else {
			vAssert(len(e.CtxFields) == 0, "no-context-fields-without-hook")
		}
		vAssert(len(e.Fields) == nOwn && e.Fields[0].Key == "msg", "record-carries-own-fields")
		vAssert(e.Level.code == code && e.Tag == "_t_x", "record-level-and-tag")
	}
	vReach("emitted")
}

type vSink struct {
	writes [][]byte
	slow   bool
}

func (s *vSink) Write(b []byte) (int, error) {
	if s.slow {
		vYield()
	}
	s.writes = append(s.writes, append([]byte(nil), b...))
	return len(b), nil
}

func vContains(b []byte, sub string) bool {
	for i := 0; i+len(sub) <= len(b); i++ {
		if string(b[i:i+len(sub)]) == sub {
			return true
		}
	}
	return false
}

func vIndex(b []byte, sub string) int {
	for i := 0; i+len(sub) <= len(b); i++ {
		if string(b[i:i+len(sub)]) == sub {
			return i
		}
	}
	return -1
}

// H_C10_builtin: unbound tag -> built-in console logger; the formatted line shows the context
// string, then context fields ahead of the call's own fields.
func H_C10_builtin() {
	var nTime, nStr, nFields int
	hookTime := time.Unix(1700000000, 0)
	TimeNow = func(ctx context.Context) time.Time { nTime++; return hookTime }
	StringFromContext = func(ctx context.Context) string { nStr++; return "ctx-string" }
	FieldsFromContext = func(ctx context.Context) []Field { nFields++; return []Field{String("c1", "x")} }
	sink := &vSink{}
	saved := Stdout
	Stdout = sink
	defer func() { TimeNow, StringFromContext, FieldsFromContext = nil, nil, nil; Stdout = saved }()
	tag := &Tag{tag: "_t_x"}
	code := vInt32("L")
	Record(vCtx, Level{code: code, name: "custom"}, tag, 1, Msg("own"))
	if 0 <= code && code < 999 {
		vAssert(len(sink.writes) == 1, "builtin-logger-emits-once")
		vAssert(nTime == 1 && nStr == 1 && nFields == 1, "hooks-exactly-once")
		if len(sink.writes) == 1 {
			line := sink.writes[0]
			a, b, c := vIndex(line, "ctx-string"), vIndex(line, "c1=x"), vIndex(line, "msg=own")
			vAssert(a >= 0 && b > a && c > b, "line-shows-ctx-string-then-ctx-fields-then-own-fields")
			vAssert(vContains(line, "[CUSTOM]"), "line-shows-level")
		}
	} else {
		vAssert(len(sink.writes) == 0, "builtin-logger-disabled-emits-nothing")
		vAssert(nTime == 0 && nStr == 0 && nFields == 0, "disabled-hooks-not-invoked")
	}
	vReach("end")
}

//verif:witness H_C10_sequence end
//verif:bound C10 all two consecutive events through one sync logger with the hook pattern changing in between (each hook set/unset per event, 64 patterns), recycled Event objects (sync.Pool returns the event just put back): the second record carries exactly what its own hooks returned
// H_C10_sequence: hooks change between two events; the pooled Event must not leak the first event's data.
func H_C10_sequence() {
	app := &vRecAppender{}
	all := LevelRange{MinLevel: NoneLevel, MaxLevel: MaxLevel}
	logger := &SyncLogger{LoggerBase: LoggerBase{Name: "l", Level: all}}
	logger.AppenderRefs.AppenderRefs = []*AppenderRef{{Appender: app, Level: all}}
	tag := &Tag{tag: "_t_x", logger: logger}
	defer func() { TimeNow, StringFromContext, FieldsFromContext = nil, nil, nil }()
	// the second hook time is the same instant as the first one, expressed in another zone
	hookTime := [2]time.Time{time.Unix(1700000000, 0), time.Unix(1700000000, 0).In(time.FixedZone("east", 8*3600))}
	var set [2][3]bool
	for ev := 0; ev < 2; ev++ {
		TimeNow, StringFromContext, FieldsFromContext = nil, nil, nil
		set[ev] = [3]bool{vChoose("time", 2) == 1, vChoose("str", 2) == 1, vChoose("fields", 2) == 1}
		k := ev
		if set[ev][0] {
			TimeNow = func(ctx context.Context) time.Time { return hookTime[k] }
		}
		if set[ev][1] {
			StringFromContext = func(ctx context.Context) string { return [2]string{"first-ctx", "second-ctx"}[k] }
		}
		if set[ev][2] {
			FieldsFromContext = func(ctx context.Context) []Field { return []Field{Int("ev", k)} }
		}
		if ev == 0 {
			Info(vCtx, tag, Msg("one"), Int("a", 1))
		} else {
			Warn(vCtx, tag, Msg("two"))
		}
	}
	// the formatted record shows the hook's time as returned (same instant, different zones)
	if set[0][0] && set[1][0] {
		sink := &vSink{}
		saved := Stdout
		Stdout = sink
		cl := &ConsoleLogger{LoggerBase: LoggerBase{Name: "c", Level: all}, ConsoleAppender: ConsoleAppender{Layout: &TextLayout{BaseLayout{FileLineLength: 48}}}}
		ctag := &Tag{tag: "_t_y", logger: cl}
		for k := 0; k < 2; k++ {
			kk := k
			TimeNow = func(ctx context.Context) time.Time { return hookTime[kk] }
			Info(vCtx, ctag, Msg("t"))
		}
		Stdout = saved
		vAssert(len(sink.writes) == 2, "formatted-events-emitted")
		if len(sink.writes) == 2 {
			vAssert(vContains(sink.writes[0], "[2023-11-14T22:13:20.000]"), "formatted-record-shows-the-hooks-time")
			vAssert(vContains(sink.writes[1], "[2023-11-15T06:13:20.000]"), "formatted-record-shows-the-hooks-time-in-its-zone")
		}
	}
	vAssert(app.appends == 2, "both-events-emitted")
	if app.appends == 2 {
		for ev := 0; ev < 2; ev++ {
			e := app.events[ev]
			if set[ev][0] {
				vAssert(e.Time == hookTime[ev], "record-carries-its-own-hook-time")
			}
			if set[ev][1] {
				vAssert(e.CtxString == [2]string{"first-ctx", "second-ctx"}[ev], "record-carries-its-own-context-string")
			} else {
				vAssert(e.CtxString == "", "no-context-string-when-the-hook-is-unset")
			}
			if set[ev][2] {
				vAssert(len(e.CtxFields) == 1 && e.CtxFields[0].Key == "ev", "record-carries-its-own-context-fields")
			} else {
				vAssert(len(e.CtxFields) == 0, "no-context-fields-when-the-hook-is-unset")
			}
		}
		vAssert(len(app.events[0].Fields) == 2 && len(app.events[1].Fields) == 1, "record-carries-its-own-fields")
		vAssert(app.events[0].Level.code == 300 && app.events[1].Level.code == 400, "record-carries-its-own-level")
	}
	vReach("end")
}

//verif:witness H_C10_async end
//verif:bound C10 all async logger (capacity 1, worker parked in a gated appender, 3 policies): three events through Info with all hooks set, the later ones taking the buffer-full path; every record that is delivered carries its own hook time, context string, context fields and own fields
//verif:engine-only H_C10_async

// H_C10_async: what an async logger delivers is the record as populated, also after overflow handling.
func H_C10_async() {
	vOpt("loop", 400)
	vOpt("chancap", 1)
	policy := BufferFullPolicy(vChoose("policy", 3))
	var n int
	TimeNow = func(ctx context.Context) time.Time { n++; return time.Unix(int64(1700000000+n), 0) }
	StringFromContext = func(ctx context.Context) string { return "ctx-string" }
	FieldsFromContext = func(ctx context.Context) []Field { return []Field{String("c1", "x")} }
	defer func() { TimeNow, StringFromContext, FieldsFromContext = nil, nil, nil }()
	app := &vEventGate{gate: make(chan int, 8)}
	all := LevelRange{MinLevel: NoneLevel, MaxLevel: MaxLevel}
	l := &AsyncLogger{LoggerBase: LoggerBase{Name: "a", Level: all}, BufferSize: 100, BufferFullPolicy: policy}
	l.AppenderRefs.AppenderRefs = []*AppenderRef{{Appender: app, Level: all}}
	if err := l.Start(); err != nil {
		panic(err)
	}
	tag := &Tag{tag: "_t_x", logger: l}
	if policy == BufferFullPolicyBlock {
		for i := 0; i < 8; i++ {
			app.gate <- 1
		}
	}
	Info(vCtx, tag, Msg("one"), Int("k", 1))
	Info(vCtx, tag, Msg("two"), Int("k", 2))
	Info(vCtx, tag, Msg("three"), Int("k", 3))
	if policy != BufferFullPolicyBlock {
		for i := 0; i < 8; i++ {
			app.gate <- 1
		}
	}
	l.Stop()
	vAssert(len(app.events)+int(l.GetDiscardCounter()) == 3, "delivered-or-counted")
	for _, e := range app.events {
		vAssert(e.CtxString == "ctx-string" && len(e.CtxFields) == 1 && e.CtxFields[0].Key == "c1", "record-carries-context-data")
		vAssert(len(e.Fields) == 2 && e.Fields[0].Key == "msg" && e.Fields[1].Key == "k", "record-carries-own-fields")
		vAssert(e.Level.code == 300 && e.Tag == "_t_x", "record-level-and-tag")
		k := int64(e.Fields[1].Num)
		vAssert(1 <= k && k <= 3 && e.Time == time.Unix(1700000000+k, 0), "record-carries-its-own-hook-time")
	}
	vReach("end")
}

type vEventGate struct {
	AppenderBase
	gate   chan int
	events []Event
}

func (g *vEventGate) Start() error { return nil }
func (g *vEventGate) Stop()        {}
func (g *vEventGate) Append(e *Event) {
	<-g.gate
	g.events = append(g.events, *e)
}
func (g *vEventGate) Write(b []byte) { <-g.gate }

//verif:witness H_C10_sinks end
//verif:bound C10 all real sinks: sync logger -> console / file / rolling-file appender and the rolling-file logger (file-system model, concrete clock), all three hooks set, two events: each hook runs exactly once per event with the caller's context (nothing else in the pipeline consults the hooks)
//verif:engine-only H_C10_sinks
func H_C10_sinks() {
	vOpt("loop", 400)
	var nTime, nStr, nFields, badCtx int
	hookTime := time.Unix(1700000000, 0)
	TimeNow = func(ctx context.Context) time.Time {
		nTime++
		if ctx != vCtx {
			badCtx++
		}
		return hookTime
	}
	StringFromContext = func(ctx context.Context) string {
		nStr++
		if ctx != vCtx {
			badCtx++
		}
		return "cs"
	}
	FieldsFromContext = func(ctx context.Context) []Field {
		nFields++
		if ctx != vCtx {
			badCtx++
		}
		return []Field{Int("c", 1)}
	}
	defer func() { TimeNow, StringFromContext, FieldsFromContext = nil, nil, nil }()
	root := vFSRoot()
	defer vFSCleanup()
	dir := root + "/logs"
	vFSMkdir(dir)
	saved := Stdout
	defer func() { Stdout = saved }()
	Stdout = &vSink{}
	lay := &TextLayout{BaseLayout{FileLineLength: 48}}
	all := LevelRange{MinLevel: NoneLevel, MaxLevel: MaxLevel}
	tag := &Tag{tag: "_t_x"}
	var stop func()
	kind := vChoose("sink", 4)
	if kind == 3 {
		rl := &RollingFileLogger{LoggerBase: LoggerBase{Name: "r", Level: all}, FileDir: dir, FileName: "r", Rotation: TimeRotation{Interval: time.Second}, MaxAge: 168, BufferSize: 100}
		if err := rl.Start(); err != nil {
			panic(err)
		}
		tag.logger, stop = rl, rl.Stop
	} else {
		var app Appender
		switch kind {
		case 0:
			app = &ConsoleAppender{Layout: lay}
		case 1:
			app = &FileAppender{Layout: lay, FileDir: dir, FileName: "f.log"}
		default:
			app = &RollingFileAppender{Layout: lay, FileDir: dir, FileName: "r", Rotation: TimeRotation{Interval: time.Second}, MaxAge: 168}
		}
		if err := app.Start(); err != nil {
			panic(err)
		}
		logger := &SyncLogger{LoggerBase: LoggerBase{Name: "s", Level: all}}
		logger.AppenderRefs.AppenderRefs = []*AppenderRef{{Appender: app, Level: all}}
		tag.logger, stop = logger, app.Stop
	}
	base := nTime // a sink may not consult the hooks at start-up either
	vAssert(base == 0 && nStr == 0 && nFields == 0, "no-hook-invoked-without-an-event")
	for i := 1; i <= 2; i++ {
		Info(vCtx, tag, Msg("m"))
		vAssert(nTime == i, "time-hook-exactly-once-per-event")
		vAssert(nStr == i && nFields == i, "context-hooks-exactly-once-per-event")
		vClockAdvance(2) // the next event falls into the next rotation interval
	}
	stop()
	vAssert(badCtx == 0, "hooks-get-the-callers-context")
	vReach("end")
}

//verif:witness H_C10_ctxslice end
//verif:bound C10 all context fields handed out as views of one backing array (first event: 1 field with spare capacity, second event: 2 fields over the same array), sync logger with text or JSON layout at logger level or in the appender: each line shows the context fields its own hook call returned, ahead of the call's own fields
func H_C10_ctxslice() {
	base := make([]Field, 2, 4)
	base[0], base[1] = String("c1", "x"), String("c2", "y")
	n := 0
	FieldsFromContext = func(ctx context.Context) []Field {
		n++
		if n == 1 {
			return base[:1] // spare capacity: an append would write into base[1]
		}
		return base[:2]
	}
	ts := time.Unix(1700000000, 0)
	TimeNow = func(ctx context.Context) time.Time { return ts }
	savedCaller := enableCaller
	enableCaller = false
	saved := Stdout
	sink := &vSink{}
	Stdout = sink
	defer func() { TimeNow, FieldsFromContext = nil, nil; enableCaller = savedCaller; Stdout = saved }()
	var lay Layout = &TextLayout{BaseLayout{FileLineLength: 48}}
	jsonLay := vChoose("layout", 2) == 1
	if jsonLay {
		lay = &JSONLayout{BaseLayout{FileLineLength: 48}}
	}
	all := LevelRange{MinLevel: NoneLevel, MaxLevel: MaxLevel}
	logger := &SyncLogger{LoggerBase: LoggerBase{Name: "s", Level: all}}
	if vChoose("loggerLayout", 2) == 1 {
		logger.Layout = lay
	}
	logger.AppenderRefs.AppenderRefs = []*AppenderRef{{Appender: &ConsoleAppender{Layout: lay}, Level: all}}
	tag := &Tag{tag: "_t_x", logger: logger}
	Info(vCtx, tag, String("own", "first"))
	Info(vCtx, tag, String("own", "second"))
	vAssert(len(sink.writes) == 2 && n == 2, "two-events-two-hook-calls")
	if len(sink.writes) == 2 {
		if jsonLay {
			vAssert(vContains(sink.writes[0], "\"c1\":\"x\",\"own\":\"first\"") && !vContains(sink.writes[0], "c2"), "first-line-carries-its-own-context-fields")
			vAssert(vContains(sink.writes[1], "\"c1\":\"x\",\"c2\":\"y\",\"own\":\"second\""), "second-line-carries-its-own-context-fields")
		} else {
			vAssert(vContains(sink.writes[0], "||c1=x||own=first\n") && !vContains(sink.writes[0], "c2"), "first-line-carries-its-own-context-fields")
			vAssert(vContains(sink.writes[1], "||c1=x||c2=y||own=second\n"), "second-line-carries-its-own-context-fields")
		}
	}
	vReach("end")
}
