package log

import (
	"context"
	"time"
)

//verif:witness H_C05_async_stop end
//verif:witness H_C05_kinds end
//verif:bound C05 quick async logger: Stop at every buffer occupancy 0..capacity (capacity 1..2, producers finish before Stop, worker idle / mid-append on a slow appender), 3 policies; every logger kind by direct construction (sync, async, console, file, rolling-file sync/async x 3 policies x separate), 2 events + 1 raw write, Stop once or twice
//verif:bound C05 thorough as quick with pre-emption at every visible operation (1 pre-emptive switch; switches forced by blocking are free)
//verif:assume C05 'returns in bounded time' is decided as 'is not blocked forever / does not spin forever in the model' (outcomes BLOCKED / DIVERGE); wall-clock bounds are not modelled
//verif:engine-only H_C05_async_stop

func H_C05_async_stop() {
	vSchedOpts()
	capacity := 1 + vChoose("cap", 2)
	policy := vChoose("policy", 3)
	slow := vChoose("slow", 2) == 1
	plan, submitted := vPlan(2, 2)
	l, app := vAsyncRun(capacity, policy, slow, plan) // returns after Stop returned
	delivered := app.appends + app.writes
	discarded := int(l.GetDiscardCounter())
	vAssert(delivered == submitted-discarded, "everything-accepted-is-delivered-when-stop-returns")
	vReach("end")
}

func H_C05_kinds() {
	vOpt("loop", 400)
	vOpt("preempt", 1)
	vOpt("chancap", 2)
	root := vFSRoot()
	defer vFSCleanup()
	dir := root + "/logs"
	vFSMkdir(dir)
	lay := &TextLayout{BaseLayout{FileLineLength: 48}}
	sink := &vSink{}
	saved := Stdout
	Stdout = sink
	defer func() { Stdout = saved }()
	all := LevelRange{MinLevel: NoneLevel, MaxLevel: MaxLevel}
	base := LoggerBase{Name: "k", Level: all}
	if vChoose("loggerLayout", 2) == 1 {
		base.Layout = lay
	}
	rec := &vRecAppender{}
	var logger Logger
	target := 0 // 0 rec appender, 1 console, 2 file f.log, 3 rolling files
	discardOK := false
	switch vChoose("kind", 5) {
	case 0:
		l := &SyncLogger{LoggerBase: base}
		l.AppenderRefs.AppenderRefs = []*AppenderRef{{Appender: rec, Level: all}}
		logger = l
	case 1:
		l := &AsyncLogger{LoggerBase: base, BufferSize: 100, BufferFullPolicy: BufferFullPolicy(vChoose("policy", 3))}
		l.AppenderRefs.AppenderRefs = []*AppenderRef{{Appender: rec, Level: all}}
		logger = l
	case 2:
		logger = &ConsoleLogger{LoggerBase: base, ConsoleAppender: ConsoleAppender{Layout: lay}}
		target = 1
	case 3:
		logger = &FileLogger{LoggerBase: base, FileAppender: FileAppender{Layout: lay, FileDir: dir, FileName: "f.log"}}
		target = 2
	default:
		l := &RollingFileLogger{LoggerBase: base, FileDir: dir, FileName: "r", Rotation: TimeRotation{Interval: time.Hour}, MaxAge: 168,
			Separate: vChoose("separate", 2) == 1, AsyncWrite: vChoose("async", 2) == 1, BufferSize: 100, BufferFullPolicy: BufferFullPolicy(vChoose("policy", 3))}
		logger = l
		target = 3
		_ = discardOK
	}
	if err := logger.Start(); err != nil {
		panic(err)
	}
	tag := &Tag{tag: "_t_x", logger: logger}
	ctx := context.Background()
	Info(ctx, tag, Msg("info-line"))
	Error(ctx, tag, Msg("error-line"))
	logger.Write([]byte("raw-line\n"))
	logger.Stop()
	if vChoose("stopTwice", 2) == 1 {
		if ap, ok := logger.(*FileLogger); ok {
			ap.Stop()
		}
		if ap, ok := logger.(*RollingFileLogger); ok {
			for _, a := range ap.appenders {
				a.Stop()
			}
		}
	}
	var content []byte
	switch target {
	case 0:
		discarded := 0
		if al, ok := logger.(*AsyncLogger); ok {
			discarded = int(al.GetDiscardCounter())
		}
		vAssert(rec.appends+rec.writes == 3-discarded, "all-accepted-items-handed-to-the-appender")
		vReach("end")
		return
	case 1:
		for _, w := range sink.writes {
			content = append(content, w...)
		}
	case 2:
		content, _ = vFSRead(dir, "f.log")
	default:
		for _, n := range vFSNames(dir) {
			c, _ := vFSRead(dir, n)
			content = append(content, c...)
		}
	}
	discarded := 0
	if rl, ok := logger.(*RollingFileLogger); ok {
		if al, ok := rl.logger.(*AsyncLogger); ok {
			discarded = int(al.GetDiscardCounter()) // possible with the overridden capacity 2 only
		}
	}
	lines := 0
	for _, c := range content {
		if c == '\n' {
			lines++
		}
	}
	if discarded == 0 {
		want := 3
		if rl, ok := logger.(*RollingFileLogger); ok && rl.Separate {
			want = 4 // the raw write goes to both files
		}
		vAssert(lines == want, "all-accepted-items-readable-from-the-target")
		vAssert(vContains(content, "info-line") && vContains(content, "error-line") && vContains(content, "raw-line"), "accepted-items-readable-verbatim")
	}
	vAssert(vFSOpenFDs() == 0, "no-descriptor-left-open")
	vReach("end")
}

//verif:witness H_C05_destroy end
//verif:bound C05 all Destroy after the real Refresh: a tagged logger of type Logger/AsyncLogger/File/RollingFile and an optional configured root logger of type Logger/AsyncLogger/File/RollingFile (root serves the built-in tags), events and raw writes through both, then Destroy: everything accepted is in its target, loggers were stopped before appenders, no descriptor stays open; Destroy twice
//verif:engine-only H_C05_destroy

// H_C05_destroy: Destroy flushes and closes everything Refresh started, including a configured root logger.
func H_C05_destroy() {
	vOpt("loop", 400)
	vOpt("preempt", 1)
	root := vFSRoot()
	defer vFSCleanup()
	dir := root + "/logs"
	vFSMkdir(dir)
	savedHandles := loggerMap
	loggerMap = map[string]*LoggerWrapper{}
	tag := RegisterTag("_c05_tag")
	defer func() {
		Destroy()
		global.init = false
		loggerMap = savedHandles
		delete(tagRegistry, "_c05_tag")
		tag.logger, TagAppDef.logger, TagBizDef.logger = nil, nil, nil
	}()
	types := [4]string{"Logger", "AsyncLogger", "File", "RollingFile"}
	cfg := map[string]string{"appender.ra.type": "Rec", "appender.rb.type": "Rec"}
	add := func(name, typ, ref, file string) {
		cfg["logger."+name+".type"] = typ
		switch typ {
		case "Logger", "AsyncLogger":
			cfg["logger."+name+".appenderRef.ref"] = ref
			if typ == "AsyncLogger" {
				cfg["logger."+name+".bufferSize"] = "100"
				cfg["logger."+name+".bufferFullPolicy"] = "Block"
			}
		case "File":
			cfg["logger."+name+".fileDir"] = dir
			cfg["logger."+name+".fileName"] = file
		default:
			cfg["logger."+name+".fileDir"] = dir
			cfg["logger."+name+".fileName"] = file
			cfg["logger."+name+".rotation"] = "h"
			cfg["logger."+name+".async"] = [2]string{"false", "true"}[vChoose(name+"async", 2)]
			cfg["logger."+name+".bufferFullPolicy"] = "Block"
		}
	}
	lt := types[vChoose("tagged", 4)]
	add("l1", lt, "ra", "l1.log")
	cfg["logger.l1.tags"] = "_c05_tag"
	rt := ""
	if vChoose("root", 2) == 1 {
		rt = types[vChoose("rootType", 4)]
		add("root", rt, "rb", "root.log")
	}
	if err := Refresh(cfg); err != nil {
		panic(err)
	}
	var ra, rb *vRecAppender
	for _, a := range global.appenders {
		if x, ok := a.(*vRecAppender); ok {
			if x.Name == "ra" {
				ra = x
			} else {
				rb = x
			}
		}
	}
	ctx := context.Background()
	Info(ctx, tag, Msg("tagged-one"))
	Error(ctx, tag, Msg("tagged-two"))
	sink := &vSink{}
	savedOut := Stdout
	Stdout = sink
	Info(ctx, TagAppDef, Msg("rooted-one")) // served by the root logger (configured or built-in)
	Warn(ctx, TagAppDef, Msg("rooted-two"))
	Stdout = savedOut
	Destroy()
	if vChoose("twice", 2) == 1 {
		Destroy()
	}
	check := func(typ string, rec *vRecAppender, file string, a, b string) {
		switch typ {
		case "Logger", "AsyncLogger":
			vAssert(rec.appends == 2, "everything-accepted-is-delivered-when-destroy-returns")
		case "File":
			c, _ := vFSRead(dir, file)
			vAssert(vContains(c, a) && vContains(c, b) && vCountLines(c) == 2, "everything-accepted-is-in-the-file-when-destroy-returns")
		default:
			var c []byte
			for _, n := range vFSNames(dir) {
				if len(n) > len(file) && n[:len(file)+1] == file+"." {
					x, _ := vFSRead(dir, n)
					c = append(c, x...)
				}
			}
			vAssert(vContains(c, a) && vContains(c, b) && vCountLines(c) == 2, "everything-accepted-is-in-the-rolling-file-when-destroy-returns")
		}
	}
	check(lt, ra, "l1.log", "tagged-one", "tagged-two")
	if rt != "" {
		check(rt, rb, "root.log", "rooted-one", "rooted-two")
		vAssert(len(sink.writes) == 0, "configured-root-serves-unrouted-tags")
	} else {
		vAssert(len(sink.writes) == 2, "built-in-logger-serves-unrouted-tags")
	}
	vAssert(vFSOpenFDs() == 0, "no-descriptor-left-open-after-destroy")
	vReach("end")
}

//verif:witness H_C05_rolling_concurrent end
//verif:bound C05 all descriptors of a running rolling file appender: 2 concurrent writers x 1 write each under the symbolic clock (interval 1 s, stall rule of C13), pre-emption at every visible operation with at most 2 pre-emptive switches: at most two descriptors once both writes have returned, none after Stop
//verif:engine-only H_C05_rolling_concurrent
func H_C05_rolling_concurrent() {
	vRollConcurrent(true, 1, 2, 0)
}
