package log

import (
	"context"
	"time"
)

//verif:witness H_C05_async_stop end
//verif:witness H_C05_kinds end
//verif:bound C05 quick async logger: Stop at every buffer occupancy 0..capacity (capacity 1..2, producers finish before Stop, worker idle / mid-append on a slow appender), 3 policies; every logger kind by direct construction (sync, async, console, file, rolling-file sync/async x 3 policies x separate), 2 events + 1 raw write, Stop once or twice
//verif:bound C05 thorough as quick with pre-emption at every visible operation (1 pre-emptive switch; switches forced by blocking are free)
//verif:assume C05 'returns in bounded time' is decided as 'is not blocked forever / does not spin forever in the model' (outcomes BLOCKED / DIVERGE); wall-clock bounds are not modelled
//verif:engine-only H_C05_async_stop

func H_C05_async_stop() {
	vSchedOpts()
	capacity := 1 + vChoose("cap", 2)
	policy := vChoose("policy", 3)
	slow := vChoose("slow", 2) == 1
	plan, submitted := vPlan(2, 2)
	l, app := vAsyncRun(capacity, policy, slow, plan) // returns after Stop returned
	delivered := app.appends + app.writes
	discarded := int(l.GetDiscardCounter())
	vAssert(delivered == submitted-discarded, "everything-accepted-is-delivered-when-stop-returns")
	vReach("end")
}

func H_C05_kinds() {
	vOpt("loop", 400)
	vOpt("preempt", 1)
	vOpt("chancap", 2)
	root := vFSRoot()
	defer vFSCleanup()
	dir := root + "/logs"
	vFSMkdir(dir)
	lay := &TextLayout{BaseLayout{FileLineLength: 48}}
	sink := &vSink{}
	saved := Stdout
	Stdout = sink
	defer func() { Stdout = saved }()
	all := LevelRange{MinLevel: NoneLevel, MaxLevel: MaxLevel}
	base := LoggerBase{Name: "k", Level: all}
	if vChoose("loggerLayout", 2) == 1 {
		base.Layout = lay
	}
	rec := &vRecAppender{}
	var logger Logger
	target := 0 // 0 rec appender, 1 console, 2 file f.log, 3 rolling files
	discardOK := false
	switch vChoose("kind", 5) {
	case 0:
		l := &SyncLogger{LoggerBase: base}
		l.AppenderRefs.AppenderRefs = []*AppenderRef{{Appender: rec, Level: all}}
		logger = l
	case 1:
		l := &AsyncLogger{LoggerBase: base, BufferSize: 100, BufferFullPolicy: BufferFullPolicy(vChoose("policy", 3))}
		l.AppenderRefs.AppenderRefs = []*AppenderRef{{Appender: rec, Level: all}}
		logger = l
	case 2:
		logger = &ConsoleLogger{LoggerBase: base, ConsoleAppender: ConsoleAppender{Layout: lay}}
		target = 1
	case 3:
		logger = &FileLogger{LoggerBase: base, FileAppender: FileAppender{Layout: lay, FileDir: dir, FileName: "f.log"}}
		target = 2
	default:
		l := &RollingFileLogger{LoggerBase: base, FileDir: dir, FileName: "r", Rotation: TimeRotation{Interval: time.Hour}, MaxAge: 168,
			Separate: vChoose("separate", 2) == 1, AsyncWrite: vChoose("async", 2) == 1, BufferSize: 100, BufferFullPolicy: BufferFullPolicy(vChoose("policy", 3))}
		logger = l
		target = 3
		_ = discardOK
	}
	if err := logger.Start(); err != nil {
		panic(err)
	}
	tag := &Tag{tag: "_t_x", logger: logger}
	ctx := context.Background()
	Info(ctx, tag, Msg("info-line"))
	Error(ctx, tag, Msg("error-line"))
	logger.Write([]byte("raw-line\n"))
	logger.Stop()
	if vChoose("stopTwice", 2) == 1 {
		if ap, ok := logger.(*FileLogger); ok {
			ap.Stop()
		}
		if ap, ok := logger.(*RollingFileLogger); ok {
			for _, a := range ap.appenders {
				a.Stop()
			}
		}
	}
	var content []byte
	switch target {
	case 0:
		discarded := 0
		if al, ok := logger.(*AsyncLogger); ok {
			discarded = int(al.GetDiscardCounter())
		}
		vAssert(rec.appends+rec.writes == 3-discarded, "all-accepted-items-handed-to-the-appender")
		vReach("end")
		return
	case 1:
		for _, w := range sink.writes {
			content = append(content, w...)
		}
	case 2:
		content, _ = vFSRead(dir, "f.log")
	default:
		for _, n := range vFSNames(dir) {
			c, _ := vFSRead(dir, n)
			content = append(content, c...)
		}
	}
	discarded := 0
	if rl, ok := logger.(*RollingFileLogger); ok {
		if al, ok := rl.logger.(*AsyncLogger); ok {
			discarded = int(al.GetDiscardCounter()) // possible with the overridden capacity 2 only
		}
	}
	lines := 0
	for _, c := range content {
		if c == '\n' {
			lines++
		}
	}
	if discarded == 0 {
		want := 3
		if rl, ok := logger.(*RollingFileLogger); ok && rl.Separate {
			want = 4 // the raw write goes to both files
		}
		vAssert(lines == want, "all-accepted-items-readable-from-the-target")
		vAssert(vContains(content, "info-line") && vContains(content, "error-line") && vContains(content, "raw-line"), "accepted-items-readable-verbatim")
	}
	vAssert(vFSOpenFDs() == 0, "no-descriptor-left-open")
	vReach("end")
}
