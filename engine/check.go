package main

import (
	"golang.org/x/tools/go/ssa"
	"encoding/json"
	"fmt"
	"os"
	"path/filepath"
	"sort"
	"strconv"
	"strings"
	"sync/atomic"
	"time"
)

type Evidence struct {
	PropertyID  string                 `json:"property_id"`
	Tier        string                 `json:"tier"`
	Seed        int64                  `json:"seed"`
	Level       string                 `json:"level"`
	Coverage    map[string]interface{} `json:"coverage"`
	Assumptions []string               `json:"assumptions"`
	WallS       float64                `json:"wall_s"`
	Violations  int                    `json:"violations"`
}

func harnessOverlay(verif, repo string) (map[string][]byte, error) {
	ov := map[string][]byte{}
	files, _ := filepath.Glob(filepath.Join(verif, "harness", "*.go"))
	for _, f := range files {
		b, err := os.ReadFile(f)
		if err != nil {
			return nil, err
		}
		ov[filepath.Join(repo, "zz_verif_"+filepath.Base(f))] = b
		if strings.HasPrefix(filepath.Base(f), "prelude") || filepath.Base(f) == "oracles.go" {
			// the same prelude serves package expr
			ov[filepath.Join(repo, "expr", "zz_verif_"+filepath.Base(f))] = []byte(strings.Replace(string(b), "package log", "package expr", 1))
		}
	}
	files, _ = filepath.Glob(filepath.Join(verif, "harness", "expr", "*.go"))
	for _, f := range files {
		b, err := os.ReadFile(f)
		if err != nil {
			return nil, err
		}
		ov[filepath.Join(repo, "expr", "zz_verif_"+filepath.Base(f))] = b
	}
	if len(ov) == 0 {
		return nil, fmt.Errorf("no harness files under %s/harness", verif)
	}
	return ov, nil
}

func loadKnown(verif string) map[string]KnownFinding {
	out := map[string]KnownFinding{}
	b, err := os.ReadFile(filepath.Join(verif, "known_findings.json"))
	if err != nil {
		return out
	}
	var doc struct {
		Findings []KnownFinding `json:"findings"`
	}
	if json.Unmarshal(b, &doc) == nil {
		for _, f := range doc.Findings {
			out[f.ID] = f
		}
	}
	return out
}

var currentTier int

func runCheck(prop, repo, verif, tier string, workers int, only string, timeout time.Duration, noReplay, debug bool) int {
	t0 := time.Now()
	seed := int64(0)
	if s := os.Getenv("VERIF_SEED"); s != "" {
		seed, _ = strconv.ParseInt(s, 10, 64)
	}
	ov, err := harnessOverlay(verif, repo)
	if err != nil {
		fmt.Fprintln(os.Stderr, err)
		return 2
	}
	eng, err := loadEngine(repo, ov)
	if err != nil {
		fmt.Fprintln(os.Stderr, "load:", err)
		return 2
	}
	eng.workers = workers
	eng.seed = seed
	if tier == "thorough" {
		eng.tier = 1
	}
	currentTier = eng.tier
	eng.known = loadKnown(verif)
	eng.engineOnly = map[string]bool{}
	for _, h := range harnessNotes(verif, "//verif:engine-only ", "") {
		eng.engineOnly[strings.TrimSpace(h)] = true
	}
	if err := eng.runInit(); err != nil {
		fmt.Fprintln(os.Stderr, "init:", err)
		return 2
	}
	tLoad := time.Since(t0)
	hs := eng.harnesses(prop)
	if only != "" {
		var f []*ssa.Function
		for _, h := range hs {
			for _, o := range strings.Split(only, ",") {
				if h.Name() == o {
					f = append(f, h)
				}
			}
		}
		hs = f
	}
	if len(hs) == 0 {
		fmt.Fprintf(os.Stderr, "no harness for %s\n", prop)
		return 2
	}
	var results []*RunResult
	inconclusive := false
	var allViol []*Violation
	knownSeen := map[string]*Violation{}
	for _, h := range hs {
		ht0 := time.Now()
		res := eng.runHarness(h, timeout)
		results = append(results, res)
		fmt.Printf("harness %s: paths=%d outcomes=%v reached=%v steps=%d wall=%.1fs\n", h.Name(), res.Paths, res.Outcomes, res.Reached, res.Steps, time.Since(ht0).Seconds())
		for _, m := range res.Inconcl {
			fmt.Printf("  INCONCLUSIVE: %s\n", m)
			inconclusive = true
		}
		if res.Unknown > 0 {
			fmt.Printf("  INCONCLUSIVE: %d paths with solver-unknown feasibility\n", res.Unknown)
			inconclusive = true
		}
		if len(res.Reached) == 0 {
			fmt.Printf("  INCONCLUSIVE: harness %s reached no witness label (vacuous)\n", h.Name())
			inconclusive = true
		}
		allViol = append(allViol, res.Violations...)
		for id, v := range res.KnownSeen {
			if _, ok := knownSeen[id]; !ok {
				knownSeen[id] = v
			}
		}
		if debug {
			for _, sm := range res.Samples {
				b, _ := json.Marshal(sm)
				fmt.Printf("  sample %s\n", b)
			}
		}
	}
	// required witness labels: declared by harness files as comments "//verif:witness <harness> <label>"
	for _, miss := range missingWitnesses(verif, results) {
		fmt.Printf("  INCONCLUSIVE: witness label not reached: %s\n", miss)
		inconclusive = true
	}

	// replay violations natively
	os.MkdirAll(filepath.Join(verif, "replays", prop), 0o755)
	exit := 0
	confirmed := 0
	var ids []string
	for id := range knownSeen {
		ids = append(ids, id)
	}
	sort.Strings(ids)
	for _, id := range ids {
		v := knownSeen[id]
		fmt.Printf("KNOWN-FINDING: property=%s %s %s (%s %s in %s)\n", prop, id, eng.known[id].What, v.Kind, v.Label, v.Harness)
	}
	var unconfirmed []string
	validated := 0
	if !noReplay {
		n, err := crossCheck(eng, verif, repo, prop, results, seed)
		if err != nil {
			fmt.Printf("  INCONCLUSIVE: native cross-check: %v\n", err)
			inconclusive = true
		}
		validated = n
	}
	unconfirmedOK := map[string]bool{}
	for _, h := range harnessNotes(verif, "//verif:unconfirmed ", "") {
		unconfirmedOK[strings.TrimSpace(h)] = true
	}
	for i, v := range allViol {
		path := filepath.Join(verif, "replays", prop, fmt.Sprintf("%s-%d.json", v.Harness, i))
		writeReplay(path, prop, v)
		if unconfirmedOK[v.Harness] {
			// exploration outside the claimed bound whose counterexamples cannot be enforced natively
			fmt.Printf("  UNCONFIRMED (outside the claim): %s %s in %s choices=%v inputs=%s trace=%s\n", v.Kind, v.Label, v.Harness, v.Choices, jsonStr(v.Inputs), path)
			unconfirmed = append(unconfirmed, fmt.Sprintf("%s %s %s", v.Harness, v.Kind, v.Label))
			continue
		}
		status := "engine-replay"
		if !noReplay {
			ok, out, err := nativeReplay(verif, repo, prop, v, path)
			switch {
			case err != nil:
				status = "native replay unavailable: " + err.Error()
			case ok:
				status = "reproduced natively"
			default:
				status = "NOT reproduced natively"
				fmt.Printf("  replay of %s/%s did not reproduce natively; engine/stub mismatch suspected:\n%s\n", v.Harness, v.Label, out)
				inconclusive = true
				continue
			}
		}
		confirmed++
		fmt.Printf("  violation: %s %s [%s] %s\n    inputs=%s\n    choices=%v\n", v.Kind, v.Label, status, v.Detail, jsonStr(v.Inputs), v.Choices)
		fmt.Printf("VIOLATION property=%s replay=%s\n", prop, path)
		exit = 1
	}
	if exit == 0 && inconclusive {
		exit = 2
	}
	wall := time.Since(t0).Seconds()
	writeEvidence(eng, verif, prop, tier, seed, results, validated, confirmed, inconclusive, wall, tLoad.Seconds(), ids, unconfirmed)
	fmt.Printf("%s tier=%s exit=%d wall=%.1fs (load+init %.1fs) queries=%d sat=%d unsat=%d unknown=%d cache=%d model-hits=%d solver=%.1fs\n",
		prop, tier, exit, wall, tLoad.Seconds(), gstats.queries, gstats.sat, gstats.unsat, gstats.unknown, gstats.cacheHits, gstats.modelHits, float64(atomic.LoadInt64(&gstats.nanos))/1e9)
	return exit
}

func jsonStr(v interface{}) string {
	b, _ := json.Marshal(v)
	return string(b)
}

func missingWitnesses(verif string, results []*RunResult) []string {
	var out []string
	files, _ := filepath.Glob(filepath.Join(verif, "harness", "*.go"))
	f2, _ := filepath.Glob(filepath.Join(verif, "harness", "expr", "*.go"))
	files = append(files, f2...)
	want := map[string][]string{}
	for _, f := range files {
		b, err := os.ReadFile(f)
		if err != nil {
			continue
		}
		for _, line := range strings.Split(string(b), "\n") {
			line = strings.TrimSpace(line)
			if strings.HasPrefix(line, "//verif:witness ") {
				fs := strings.Fields(line)
				if len(fs) >= 3 {
					want[fs[1]] = append(want[fs[1]], fs[2:]...)
				}
			}
		}
	}
	for _, r := range results {
		for _, l := range want[r.Harness] {
			if r.Reached[l] == 0 {
				out = append(out, r.Harness+":"+l)
			}
		}
	}
	return out
}

func writeReplay(path, prop string, v *Violation) {
	vals := map[string]uint64{}
	for _, in := range v.Inputs {
		for _, vn := range in.Vars {
			vals[vn] = v.Model[vn]
		}
	}
	doc := map[string]interface{}{
		"property": prop, "harness": v.Harness, "kind": v.Kind, "label": v.Label, "detail": v.Detail,
		"inputs": v.Inputs, "choices": v.Choices, "trace": v.Trace, "decisions": v.Decisions, "values": vals, "tier": currentTier,
	}
	b, _ := json.MarshalIndent(doc, "", " ")
	os.WriteFile(path, b, 0o644)
}

func writeEvidence(eng *Engine, verif, prop, tier string, seed int64, results []*RunResult, validated, confirmed int, inconclusive bool, wall, loadS float64, knownIDs []string, unconfirmed []string) {
	var paths, steps int64
	var samples []interface{}
	harn := []map[string]interface{}{}
	outcomes := map[string]int64{}
	var labels []string
	for _, r := range results {
		paths += r.Paths
		steps += r.Steps
		for k, v := range r.Outcomes {
			outcomes[k] += v
		}
		for l := range r.Reached {
			labels = append(labels, r.Harness+":"+l)
		}
		n := 0
		for _, sm := range r.Samples {
			if n >= 4 {
				break
			}
			samples = append(samples, map[string]interface{}{"harness": r.Harness, "inputs": sm.Inputs, "choices": sm.Choices, "outcome": sm.Outcome, "reached": sm.Reached, "observed": sm.Observed})
			n++
		}
		harn = append(harn, map[string]interface{}{"harness": r.Harness, "paths": r.Paths, "outcomes": r.Outcomes, "inconclusive": r.Inconcl})
	}
	sort.Strings(labels)
	if len(samples) == 0 {
		samples = append(samples, "no completed path")
	}
	var fns, intr []string
	eng.funcsSeen.Range(func(k, _ interface{}) bool { fns = append(fns, k.(string)); return true })
	eng.intrinSeen.Range(func(k, _ interface{}) bool { intr = append(intr, k.(string)); return true })
	sort.Strings(fns)
	sort.Strings(intr)
	q := atomic.LoadInt64(&gstats.queries)
	trans := q + atomic.LoadInt64(&gstats.cacheHits) + atomic.LoadInt64(&gstats.modelHits) + atomic.LoadInt64(&gstats.synHits)
	if trans == 0 {
		trans = steps
	}
	ev := Evidence{PropertyID: prop, Tier: tier, Seed: seed, Level: "model_checking", WallS: wall, Violations: confirmed}
	ev.Coverage = map[string]interface{}{
		"states":                        max64(paths, 1),
		"transitions":                   max64(trans, 1),
		"traces_validated_against_impl": validated,
		"samples":                       samples,
		"exhaustive":                    !inconclusive,
		"explanation":                   "states = symbolic paths completed (each stands for the class of inputs satisfying its path condition); transitions = branch/assertion decisions discharged (solver queries + decisions answered by the model/syntactic cache)",
		"paths_by_outcome":              outcomes,
		"harnesses":                     harn,
		"witness_labels":                labels,
		"functions_encoded":             fns,
		"intrinsics_and_stubs":          intr,
		"instructions_interpreted":      steps,
		"queries":                       map[string]int64{"sent": q, "sat": gstats.sat, "unsat": gstats.unsat, "unknown": gstats.unknown, "cache_hits": gstats.cacheHits, "decided_by_model": gstats.modelHits, "decided_syntactically": gstats.synHits},
		"solver_time_s":                 float64(atomic.LoadInt64(&gstats.nanos)) / 1e9,
		"solver":                        "z3 4.8.12 (-in, one process per worker)",
		"cross_solver_validation":       map[string]interface{}{"solvers": "thorough tier: z3 5.1.0 (z3-new) and cvc5 1.0 re-decide every unsat answer (the ones that prune a path or discharge an assertion); all tiers: every sat model is re-evaluated against the query by the engine", "sat_models_validated": xstats.modelsValidated, "sat_models_rejected": xstats.modelBad, "unsat_requeries": xstats.checked, "agreed": xstats.agreed, "disagreed": xstats.disagreed, "unknown_on_other_solver": xstats.unknown},
		"load_and_init_s":               loadS,
		"known_findings_seen":           knownIDs,
		"unconfirmed_outside_claim":     unconfirmed,
		"inconclusive":                  inconclusive,
		"bounds":                        harnessBounds(verif, prop, tier),
	}
	ev.Assumptions = harnessAssumptions(verif, prop)
	os.MkdirAll(filepath.Join(verif, "evidence"), 0o755)
	b, _ := json.MarshalIndent(ev, "", " ")
	os.WriteFile(filepath.Join(verif, "evidence", prop+".json"), b, 0o644)
}

func max64(a, b int64) int64 {
	if a > b {
		return a
	}
	return b
}

// harnessBounds / harnessAssumptions read "//verif:bound <id> <tier|all> text" and "//verif:assume <id> text" comments.
func harnessBounds(verif, prop, tier string) []string {
	return harnessNotes(verif, "//verif:bound "+prop+" ", tier)
}

func harnessAssumptions(verif, prop string) []string {
	out := harnessNotes(verif, "//verif:assume "+prop+" ", "")
	if out == nil {
		out = []string{}
	}
	return out
}

func harnessNotes(verif, prefix, tier string) []string {
	var out []string
	files, _ := filepath.Glob(filepath.Join(verif, "harness", "*.go"))
	f2, _ := filepath.Glob(filepath.Join(verif, "harness", "expr", "*.go"))
	files = append(files, f2...)
	sort.Strings(files)
	for _, f := range files {
		b, err := os.ReadFile(f)
		if err != nil {
			continue
		}
		for _, line := range strings.Split(string(b), "\n") {
			line = strings.TrimSpace(line)
			if strings.HasPrefix(line, prefix) {
				rest := strings.TrimPrefix(line, prefix)
				if tier != "" {
					fs := strings.SplitN(rest, " ", 2)
					if len(fs) == 2 && (fs[0] == tier || fs[0] == "all") {
						out = append(out, fs[1])
					}
					continue
				}
				out = append(out, rest)
			}
		}
	}
	return out
}

// runReplay re-executes one stored counterexample deterministically in the engine (decision
// vector followed, inputs pinned to the recorded values) with a call trace, then natively.
func runReplay(path, repo, verif string) int {
	b, err := os.ReadFile(path)
	if err != nil {
		fmt.Fprintln(os.Stderr, err)
		return 2
	}
	var doc ReplayDoc
	if err := json.Unmarshal(b, &doc); err != nil {
		fmt.Fprintln(os.Stderr, err)
		return 2
	}
	ov, err := harnessOverlay(verif, repo)
	if err != nil {
		fmt.Fprintln(os.Stderr, err)
		return 2
	}
	eng, err := loadEngine(repo, ov)
	if err != nil {
		fmt.Fprintln(os.Stderr, "load:", err)
		return 2
	}
	eng.workers = 1
	eng.tier = doc.Tier
	eng.known = loadKnown(verif)
	eng.engineOnly = map[string]bool{}
	if err := eng.runInit(); err != nil {
		fmt.Fprintln(os.Stderr, "init:", err)
		return 2
	}
	eng.replay = &doc
	eng.traceCalls = true
	var fn *ssa.Function
	for _, p := range []*ssa.Package{eng.logPkg, eng.exprPkg} {
		if p != nil && p.Func(doc.Harness) != nil {
			fn = p.Func(doc.Harness)
		}
	}
	if fn == nil {
		fmt.Fprintf(os.Stderr, "harness %s not found\n", doc.Harness)
		return 2
	}
	res := eng.runHarness(fn, 10*time.Minute)
	fmt.Printf("engine replay of %s (%s %s): paths=%d outcomes=%v\n", doc.Harness, doc.Kind, doc.Label, res.Paths, res.Outcomes)
	rc := 0
	for _, v := range res.Violations {
		fmt.Printf("  reproduced in the engine: %s %s %s\n    inputs=%s\n", v.Kind, v.Label, v.Detail, jsonStr(v.Inputs))
		for _, l := range v.Trace {
			fmt.Printf("    | %s\n", l)
		}
		rc = 1
	}
	if rc == 0 {
		fmt.Println("  no violation on the replayed path (the defect is not present in the current tree, or the file is stale)")
	}
	return rc
}
