package main

// A shim of the part of package reflect that plugin.go / log_refresh.go use, over
// interpreter values. reflect.Value (3 slots) is modelled as
//   [0] NativeVal{*RType} (Ptr{} when invalid)  [1] payload  [2] flags (bit 0: payload is the
//   address of the value, i.e. the Value is addressable/settable)

import (
	"go/types"

	"golang.org/x/tools/go/ssa"
)

func rvMake(rt *RType, payload Value, addr bool) Agg {
	f := uint64(0)
	if addr {
		f = 1
	}
	return Agg{NativeVal{rt}, payload, f}
}

func rvType(v Value) *RType {
	a := v.(Agg)
	nv, ok := a[0].(NativeVal)
	if !ok {
		return nil
	}
	return nv.V.(*RType)
}

func (s *State) rvLoad(v Value) Value {
	a := v.(Agg)
	rt := rvType(v)
	if rt == nil {
		panic(goPanic{s.newError("reflect: call of method on zero Value")})
	}
	if a[2].(uint64)&1 != 0 {
		return s.load(a[1], rt.T)
	}
	return a[1]
}

func (s *State) rvStore(dst Value, val Value) {
	a := dst.(Agg)
	rt := rvType(dst)
	if rt == nil || a[2].(uint64)&1 == 0 {
		panic(goPanic{s.newError("reflect: Set using unaddressable value")})
	}
	s.store(a[1], val, rt.T)
}

func (e *Engine) typeIface(t types.Type) Value {
	return Iface{T: e.reflectRtype(), V: NativeVal{rtypeOf(t)}}
}

func typeArg(c *callCtx, i int) types.Type {
	iv, ok := c.args[i].(Iface)
	if !ok || iv.T == nil {
		panic(goPanic{c.s.newError("reflect: nil Type")})
	}
	return iv.V.(NativeVal).V.(*RType).T
}

func (e *Engine) addReflectShim() {
	in := e.intrinsics
	in["reflect.New"] = func(c *callCtx) Value {
		t := typeArg(c, 0)
		p := c.s.allocType(t)
		return rvMake(rtypeOf(types.NewPointer(t)), p, false)
	}
	in["reflect.ValueOf"] = func(c *callCtx) Value {
		iv := c.args[0].(Iface)
		if iv.T == nil {
			return zeroValue(c.fn.Signature.Results().At(0).Type())
		}
		return rvMake(iv.T, iv.V, false)
	}
	in["reflect.MakeSlice"] = func(c *callCtx) Value {
		t := typeArg(c, 0)
		n, cp := c.int(1), c.int(2)
		et := t.Underlying().(*types.Slice).Elem()
		slots := make([]Value, 0, cp*slotsOf(et))
		for i := 0; i < cp; i++ {
			slots = appendZero(slots, et)
		}
		id := c.s.allocMem(slots)
		return rvMake(rtypeOf(t), Slice{ID: id, Len: int32(n), Cap: int32(cp)}, false)
	}
	in["reflect.Append"] = func(c *callCtx) Value {
		rt := rvType(c.args[0])
		sl := c.s.rvLoad(c.args[0]).(Slice)
		et := rt.T.Underlying().(*types.Slice).Elem()
		xs := c.args[1].(Slice)
		for i := int32(0); i < xs.Len; i++ {
			xv := Agg(append([]Value(nil), c.s.obj(xs.ID).slots[xs.Off+i*3:xs.Off+i*3+3]...))
			val := c.s.rvConv(xv, et)
			var tmp []Value
			if a, ok := val.(Agg); ok && isAggType(et) {
				tmp = a
			} else {
				tmp = []Value{val}
			}
			tid := c.s.allocMem(tmp)
			sl = c.s.appendSlice(sl, Slice{ID: tid, Len: 1, Cap: 1}, et).(Slice)
		}
		return rvMake(rt, sl, false)
	}
	m := func(name string, f Intrinsic) { in["(reflect.Value)."+name] = f }
	m("IsValid", func(c *callCtx) Value { return rvType(c.args[0]) != nil })
	m("Kind", func(c *callCtx) Value {
		rt := rvType(c.args[0])
		if rt == nil {
			return uint64(0)
		}
		return uint64(reflectKind(rt.T))
	})
	m("Type", func(c *callCtx) Value {
		rt := rvType(c.args[0])
		if rt == nil {
			panic(goPanic{c.s.newError("reflect: call of reflect.Value.Type on zero Value")})
		}
		return c.s.eng.typeIface(rt.T)
	})
	m("Elem", func(c *callCtx) Value {
		rt := rvType(c.args[0])
		if rt == nil {
			panic(goPanic{c.s.newError("reflect: call of reflect.Value.Elem on zero Value")})
		}
		switch u := rt.T.Underlying().(type) {
		case *types.Pointer:
			p := c.s.rvLoad(c.args[0])
			if pp, ok := p.(Ptr); ok && pp.ID == 0 {
				return zeroValue(c.fn.Signature.Results().At(0).Type())
			}
			return rvMake(rtypeOf(u.Elem()), p, true)
		case *types.Interface:
			iv := c.s.rvLoad(c.args[0]).(Iface)
			if iv.T == nil {
				return zeroValue(c.fn.Signature.Results().At(0).Type())
			}
			return rvMake(iv.T, iv.V, false)
		}
		panic(goPanic{c.s.newError("reflect: call of reflect.Value.Elem on " + rt.Str + " Value")})
	})
	m("NumField", func(c *callCtx) Value {
		rt := rvType(c.args[0])
		st, ok := rt.T.Underlying().(*types.Struct)
		if !ok {
			panic(goPanic{c.s.newError("reflect: call of reflect.Value.NumField on " + rt.Str + " Value")})
		}
		return uint64(st.NumFields())
	})
	m("Field", func(c *callCtx) Value {
		a := c.args[0].(Agg)
		rt := rvType(a)
		st, ok := rt.T.Underlying().(*types.Struct)
		if !ok {
			panic(goPanic{c.s.newError("reflect: call of reflect.Value.Field on " + rt.Str + " Value")})
		}
		i := c.int(1)
		if i < 0 || i >= st.NumFields() {
			panic(goPanic{c.s.newError("reflect: Field index out of range")})
		}
		ft := st.Field(i).Type()
		off := fieldOffset(st, i)
		if a[2].(uint64)&1 != 0 {
			p := a[1].(Ptr)
			return rvMake(rtypeOf(ft), Ptr{ID: p.ID, Off: p.Off + int32(off)}, true)
		}
		sv := a[1].(Agg)
		if isAggType(ft) {
			return rvMake(rtypeOf(ft), Agg(sv[off:off+slotsOf(ft)]), false)
		}
		return rvMake(rtypeOf(ft), sv[off], false)
	})
	m("Interface", func(c *callCtx) Value {
		rt := rvType(c.args[0])
		if rt == nil {
			panic(goPanic{c.s.newError("reflect: call of reflect.Value.Interface on zero Value")})
		}
		v := c.s.rvLoad(c.args[0])
		if _, ok := rt.T.Underlying().(*types.Interface); ok {
			return v
		}
		return Iface{T: rt, V: v}
	})
	m("IsNil", func(c *callCtx) Value {
		rt := rvType(c.args[0])
		if rt == nil {
			panic(goPanic{c.s.newError("reflect: call of reflect.Value.IsNil on zero Value")})
		}
		switch x := c.s.rvLoad(c.args[0]).(type) {
		case Iface:
			return x.T == nil
		case Ptr:
			return x.ID == 0
		case Slice:
			return x.ID == 0
		case MapRef:
			return x.ID == 0
		case ChanRef:
			return x.ID == 0
		case *Closure:
			return x == nil
		}
		panic(goPanic{c.s.newError("reflect: call of reflect.Value.IsNil on " + rt.Str + " Value")})
	})
	m("Set", func(c *callCtx) Value {
		rt := rvType(c.args[0])
		if rt == nil {
			panic(goPanic{c.s.newError("reflect: call of reflect.Value.Set on zero Value")})
		}
		c.s.rvStore(c.args[0], c.s.rvConv(c.args[1], rt.T))
		return nil
	})
	m("SetString", func(c *callCtx) Value { c.s.rvStore(c.args[0], c.args[1]); return nil })
	m("SetBool", func(c *callCtx) Value { c.s.rvStore(c.args[0], c.args[1]); return nil })
	setInt := func(c *callCtx) Value {
		rt := rvType(c.args[0])
		w, _, ok := intInfo(rt.T)
		if !ok {
			panic(goPanic{c.s.newError("reflect: call of reflect.Value.SetInt on " + rt.Str + " Value")})
		}
		switch x := c.args[1].(type) {
		case uint64:
			c.s.rvStore(c.args[0], x&mask(w))
		case *Term:
			if x.Sort == SInt {
				c.s.rvStore(c.args[0], x)
			} else {
				c.s.rvStore(c.args[0], mkExtract(x, 0, w))
			}
		}
		return nil
	}
	m("SetInt", setInt)
	m("SetUint", setInt)
	m("SetFloat", func(c *callCtx) Value {
		rt := rvType(c.args[0])
		f := c.args[1]
		if w, _ := isFloatType(rt.T); w == 32 {
			if x, ok := f.(float64); ok {
				f = float64(float32(x))
			}
		}
		c.s.rvStore(c.args[0], f)
		return nil
	})
	m("Len", func(c *callCtx) Value {
		switch x := c.s.rvLoad(c.args[0]).(type) {
		case Slice:
			return uint64(x.Len)
		case string:
			return uint64(len(x))
		case *SymStr:
			return uint64(len(x.B))
		}
		c.s.unsupported("reflect Len")
		return nil
	})
	m("Call", func(c *callCtx) Value {
		fnv, ok := c.s.rvLoad(c.args[0]).(*Closure)
		if !ok || fnv == nil {
			panic(goPanic{c.s.newError("reflect: call of nil function")})
		}
		insl := c.args[1].(Slice)
		var args []Value
		for i := int32(0); i < insl.Len; i++ {
			xv := Agg(append([]Value(nil), c.s.obj(insl.ID).slots[insl.Off+i*3:insl.Off+i*3+3]...))
			args = append(args, c.s.rvLoad(xv))
		}
		sig := fnv.Fn.Signature
		if len(args) != sig.Params().Len() {
			panic(goPanic{c.s.newError("reflect: Call with wrong argument count")})
		}
		res := sig.Results()
		post := func(s *State, rv Value) Value {
			var vals []Value
			switch res.Len() {
			case 0:
			case 1:
				vals = []Value{rv}
			default:
				vals = rv.(Tuple)
			}
			slots := make([]Value, 0, 3*len(vals))
			for i, v := range vals {
				slots = append(slots, rvMake(rtypeOf(res.At(i).Type()), v, false)...)
			}
			id := s.allocMem(slots)
			return Slice{ID: id, Len: int32(len(vals)), Cap: int32(len(vals))}
		}
		if in := c.s.eng.info(fnv.Fn).intrinsic; in != nil {
			cc := *c
			cc.fn, cc.args = fnv.Fn, args
			return post(c.s, in(&cc))
		}
		nf := c.s.newFrame(fnv.Fn, args, fnv.Env, c.dest)
		nf.callSite = c.site
		nf.post = post
		c.t.frames = append(c.t.frames, nf)
		c.tail = true
		return nil
	})
	// reflect.Type methods
	rt := func(c *callCtx) *RType { return c.args[0].(NativeVal).V.(*RType) }
	t := func(name string, f Intrinsic) { in["(*reflect.rtype)."+name] = f }
	t("NumField", func(c *callCtx) Value {
		st, ok := rt(c).T.Underlying().(*types.Struct)
		if !ok {
			panic(goPanic{c.s.newError("reflect: NumField of non-struct type " + rt(c).Str)})
		}
		return uint64(st.NumFields())
	})
	t("Elem", func(c *callCtx) Value {
		switch u := rt(c).T.Underlying().(type) {
		case *types.Pointer:
			return c.s.eng.typeIface(u.Elem())
		case *types.Slice:
			return c.s.eng.typeIface(u.Elem())
		case *types.Array:
			return c.s.eng.typeIface(u.Elem())
		case *types.Map:
			return c.s.eng.typeIface(u.Elem())
		case *types.Chan:
			return c.s.eng.typeIface(u.Elem())
		}
		panic(goPanic{c.s.newError("reflect: Elem of invalid type " + rt(c).Str)})
	})
	t("Field", func(c *callCtx) Value {
		st, ok := rt(c).T.Underlying().(*types.Struct)
		if !ok {
			panic(goPanic{c.s.newError("reflect: Field of non-struct type " + rt(c).Str)})
		}
		i := c.int(1)
		if i < 0 || i >= st.NumFields() {
			panic(goPanic{c.s.newError("reflect: Field index out of bounds")})
		}
		f := st.Field(i)
		sft := c.fn.Signature.Results().At(0).Type()
		out := zeroValue(sft).(Agg)
		sst := sft.Underlying().(*types.Struct)
		for k := 0; k < sst.NumFields(); k++ {
			off := fieldOffset(sst, k)
			switch sst.Field(k).Name() {
			case "Name":
				out[off] = f.Name()
			case "PkgPath":
				if !f.Exported() && f.Pkg() != nil {
					out[off] = f.Pkg().Path()
				}
			case "Type":
				out[off] = c.s.eng.typeIface(f.Type())
			case "Tag":
				out[off] = st.Tag(i)
			case "Anonymous":
				out[off] = f.Embedded()
			}
		}
		return out
	})
}

// rvConv yields the value of reflect.Value x as a value of static type dst (interface boxing).
func (s *State) rvConv(x Value, dst types.Type) Value {
	xrt := rvType(x)
	if xrt == nil {
		panic(goPanic{s.newError("reflect: use of zero Value")})
	}
	v := s.rvLoad(x)
	if _, ok := dst.Underlying().(*types.Interface); ok {
		if _, isI := xrt.T.Underlying().(*types.Interface); isI {
			return v
		}
		if !s.eng.implements(xrt, dst) {
			panic(goPanic{s.newError("reflect.Set: value of type " + xrt.Str + " is not assignable to type " + types.TypeString(dst, nil))})
		}
		return Iface{T: xrt, V: v}
	}
	if !types.AssignableTo(xrt.T, dst) {
		panic(goPanic{s.newError("reflect.Set: value of type " + xrt.Str + " is not assignable to type " + types.TypeString(dst, nil))})
	}
	return v
}

var _ = ssa.BuilderMode(0)
