package main

import (
	"go/types"
)

// Symbolic-capable models of the assembly helpers in internal/bytealg and a few unsafe builtins.

func (s *State) byteSeq(v Value) []Value {
	switch x := v.(type) {
	case string, *SymStr:
		return strBytes(x)
	case Slice:
		if x.ID == 0 {
			return nil
		}
		return s.obj(x.ID).slots[x.Off : x.Off+x.Len]
	}
	s.unsupported("byteSeq of %T", v)
	return nil
}

func byteEq(a, b Value) Value {
	x, xc := a.(uint64)
	y, yc := b.(uint64)
	if xc && yc {
		return x == y
	}
	return mkEq(toTermBV(a, 8), toTermBV(b, 8))
}

func (e *Engine) addBytealg() {
	in := e.intrinsics
	indexByte := func(c *callCtx) Value {
		b := c.s.byteSeq(c.args[0])
		for i, x := range b {
			if c.s.branch(c.w, byteEq(x, c.args[1])) {
				return uint64(i)
			}
		}
		return uint64(^uint64(0))
	}
	in["internal/bytealg.IndexByteString"] = indexByte
	in["internal/bytealg.IndexByte"] = indexByte
	lastIndexByte := func(c *callCtx) Value {
		b := c.s.byteSeq(c.args[0])
		for i := len(b) - 1; i >= 0; i-- {
			if c.s.branch(c.w, byteEq(b[i], c.args[1])) {
				return uint64(i)
			}
		}
		return uint64(^uint64(0))
	}
	in["internal/bytealg.LastIndexByteString"] = lastIndexByte
	in["internal/bytealg.LastIndexByte"] = lastIndexByte
	count := func(c *callCtx) Value {
		b := c.s.byteSeq(c.args[0])
		n := uint64(0)
		for _, x := range b {
			if c.s.branch(c.w, byteEq(x, c.args[1])) {
				n++
			}
		}
		return n
	}
	in["internal/bytealg.CountString"] = count
	in["internal/bytealg.Count"] = count
	index := func(c *callCtx) Value {
		a, b := c.s.byteSeq(c.args[0]), c.s.byteSeq(c.args[1])
		for i := 0; i+len(b) <= len(a); i++ {
			var m Value = true
			for j := range b {
				m = andValue(m, byteEq(a[i+j], b[j]))
			}
			if c.s.branch(c.w, m) {
				return uint64(i)
			}
		}
		return uint64(^uint64(0))
	}
	in["internal/bytealg.IndexString"] = index
	in["internal/bytealg.Index"] = index
	in["internal/bytealg.Equal"] = func(c *callCtx) Value {
		a, b := c.s.byteSeq(c.args[0]), c.s.byteSeq(c.args[1])
		if len(a) != len(b) {
			return false
		}
		var m Value = true
		for j := range b {
			m = andValue(m, byteEq(a[j], b[j]))
		}
		return m
	}
	in["bytes.Equal"] = in["internal/bytealg.Equal"]
	in["internal/bytealg.MakeNoZero"] = func(c *callCtx) Value {
		n := c.int(0)
		slots := make([]Value, n)
		for i := range slots {
			slots[i] = uint64(0)
		}
		id := c.s.allocMem(slots)
		return Slice{ID: id, Len: int32(n), Cap: int32(n)}
	}
	in["internal/abi.NoEscape"] = func(c *callCtx) Value { return c.args[0] }
	in["internal/abi.Escape"] = func(c *callCtx) Value { return c.args[0] }
	in["internal/race.Enabled"] = nil
	delete(in, "internal/race.Enabled")
	in["internal/bytealg.Compare"] = func(c *callCtx) Value {
		a, b := c.s.byteSeq(c.args[0]), c.s.byteSeq(c.args[1])
		lt := strLess(mkStr(a), mkStr(b))
		if c.s.branch(c.w, lt) {
			return uint64(^uint64(0))
		}
		if c.s.branch(c.w, strLess(mkStr(b), mkStr(a))) {
			return uint64(1)
		}
		return uint64(0)
	}
}

// unsafeBuiltin handles unsafe.String, StringData, Slice, SliceData, Add.
func (s *State) unsafeBuiltin(name string, args []Value, resT types.Type) (Value, bool) {
	switch name {
	case "StringData":
		if strLen(args[0]) == 0 {
			return StrPtr{S: "", Off: 0}, true
		}
		return StrPtr{S: args[0], Off: 0}, true
	case "String":
		n, ok := args[1].(uint64)
		if !ok {
			s.unsupported("unsafe.String with symbolic length")
		}
		switch p := args[0].(type) {
		case StrPtr:
			return strSlice(p.S, p.Off, p.Off+int(n)), true
		case Ptr:
			if p.ID == 0 {
				return "", true
			}
			return mkStr(s.obj(p.ID).slots[p.Off : p.Off+int32(n)]), true
		}
	case "SliceData":
		sl := args[0].(Slice)
		return Ptr{ID: sl.ID, Off: sl.Off}, true
	case "Slice":
		n, _ := args[1].(uint64)
		switch p := args[0].(type) {
		case Ptr:
			return Slice{ID: p.ID, Off: p.Off, Len: int32(n), Cap: int32(n)}, true
		case StrPtr:
			b := strBytes(strSlice(p.S, p.Off, p.Off+int(n)))
			id := s.allocMem(append([]Value(nil), b...))
			return Slice{ID: id, Len: int32(n), Cap: int32(n)}, true
		}
	}
	return nil, false
}
