package main

import (
	"strings"
	"fmt"
	"go/token"
	"go/types"

	"golang.org/x/tools/go/ssa"
)

func (s *State) spawn(w *Worker, t *Thread, fnVal Value, args []Value, site ssa.Instruction) {
	cl, ok := fnVal.(*Closure)
	if !ok || cl == nil {
		s.unsupported("go with %T", fnVal)
	}
	nt := &Thread{id: len(s.threads), name: cl.Fn.String()}
	s.threads = append(s.threads, nt)
	fi := s.eng.info(cl.Fn)
	if fi.intrinsic != nil || cl.Fn.Blocks == nil {
		// run intrinsic goroutine bodies inline
		s.doCall(w, nt, nil, fnVal, args, -1, site)
		nt.status = TDone
		return
	}
	nf := s.newFrame(cl.Fn, args, cl.Env, -1)
	nf.callSite = site
	nt.frames = append(nt.frames, nf)
}

// pendingInstr returns the instruction thread u would execute next.
func pendingInstr(u *Thread) ssa.Instruction {
	fr := u.top()
	if fr == nil {
		return nil
	}
	return fr.block.Instrs[fr.pc]
}

func (s *State) chanOf(v Value) *Object {
	c := v.(ChanRef)
	if c.ID == 0 {
		return nil
	}
	return s.obj(c.ID)
}

// partner finds a thread parked at a matching rendezvous operation on channel id.
func (s *State) partner(self *Thread, id int32, wantSend bool) *Thread {
	for _, u := range s.threads {
		if u == self || u.status != TRunnable || u.panicking {
			continue
		}
		fr := u.top()
		if fr == nil || fr.unwinding {
			continue
		}
		switch in := pendingInstr(u).(type) {
		case *ssa.Send:
			if wantSend {
				if c, ok := s.operand(fr, in.Chan).(ChanRef); ok && c.ID == id {
					return u
				}
			}
		case *ssa.UnOp:
			if !wantSend && in.Op == token.ARROW {
				if c, ok := s.operand(fr, in.X).(ChanRef); ok && c.ID == id {
					return u
				}
			}
		}
	}
	return nil
}

func (s *State) sendReady(self *Thread, cv Value) bool {
	c := cv.(ChanRef)
	if c.ID == 0 {
		return false
	}
	o := s.obj(c.ID)
	if o.closed {
		return true
	}
	if len(o.buf) < o.capa {
		return true
	}
	if o.capa == 0 {
		return s.partner(self, c.ID, false) != nil
	}
	return false
}

func (s *State) recvReady(self *Thread, cv Value) bool {
	c := cv.(ChanRef)
	if c.ID == 0 {
		return false
	}
	o := s.obj(c.ID)
	if len(o.buf) > 0 || o.closed {
		return true
	}
	if o.capa == 0 {
		return s.partner(self, c.ID, true) != nil
	}
	return false
}

// enabled reports whether thread u can execute its pending instruction.
func (s *State) enabled(u *Thread) bool {
	if u.status != TRunnable {
		return false
	}
	if u.panicking {
		return true
	}
	fr := u.top()
	if fr == nil {
		return false
	}
	if fr.unwinding {
		return true
	}
	switch in := pendingInstr(u).(type) {
	case *ssa.Send:
		return s.sendReady(u, s.operand(fr, in.Chan))
	case *ssa.UnOp:
		if in.Op == token.ARROW {
			return s.recvReady(u, s.operand(fr, in.X))
		}
	case *ssa.Select:
		if !in.Blocking {
			return true
		}
		for _, st := range in.States {
			if st.Dir == types.SendOnly {
				if s.sendReady(u, s.operand(fr, st.Chan)) {
					return true
				}
			} else if s.recvReady(u, s.operand(fr, st.Chan)) {
				return true
			}
		}
		return false
	case *ssa.Call:
		if f := in.Call.StaticCallee(); f != nil {
			fi := s.eng.info(f)
			if fi.visible && strings.HasSuffix(fi.name, ".vDrain") {
				return !s.drainBlocked(u)
			}
			if fi.visible {
				if chk := s.eng.enabledChecks[fi.name]; chk != nil {
					_, args := s.callArgs(fr, &in.Call)
					return chk(s, args)
				}
			}
		}
	}
	return true
}

// isVisible: is the pending instruction of the current thread a scheduling point?
// yield reports points where the quick tier also pre-empts.
func (s *State) isVisible(fr *Frame, instr ssa.Instruction) (visible, yield bool) {
	if s.opts.GlobalRace {
		// opt-in: stores to (and loads from) package-level variables are scheduling points, so that
		// unsynchronised shared scratch state shows up as wrong output under some interleaving
		switch in := instr.(type) {
		case *ssa.Store:
			if p, ok := s.operand(fr, in.Addr).(Ptr); ok && s.eng.isGlobalObj(s, p.ID) {
				return true, false
			}
		case *ssa.UnOp:
			if in.Op == token.MUL {
				if p, ok := s.operand(fr, in.X).(Ptr); ok && s.eng.isGlobalObj(s, p.ID) {
					return true, false
				}
			}
		}
	}
	switch in := instr.(type) {
	case *ssa.Send, *ssa.Select:
		return true, false
	case *ssa.UnOp:
		return in.Op == token.ARROW, false
	case *ssa.Call:
		if b, ok := in.Call.Value.(*ssa.Builtin); ok {
			return b.Name() == "close", false
		}
		if f := in.Call.StaticCallee(); f != nil {
			fi := s.eng.info(f)
			if fi.visible {
				return true, s.eng.yields[fi.name]
			}
			// opt-in: every call of a function of the library under test is a scheduling point (state that
			// is shared without synchronisation shows up between two statements of one function)
			if s.opts.CallRace && f.Pkg != nil && strings.HasPrefix(f.Pkg.Pkg.Path(), logPath) && !strings.HasPrefix(f.Name(), "v") && !strings.HasPrefix(f.Name(), "H_") {
				return true, false
			}
		}
	}
	return false, false
}

// schedule is called before a visible operation of the current thread.
// It returns false if the state finished (blocked).
func (s *State) schedule(w *Worker, t *Thread, yield bool) bool {
	curEnabled := t.status == TRunnable && s.enabled(t)
	var others []*Thread
	for _, u := range s.threads {
		if u != t && u.status == TRunnable && s.enabled(u) {
			others = append(others, u)
		}
	}
	var opts []*Thread
	if curEnabled {
		opts = append(opts, t)
		if s.preempt < s.opts.Preempt && (s.opts.SchedAll || yield) {
			opts = append(opts, others...)
		}
	} else {
		opts = others
	}
	if len(opts) == 0 {
		// nobody can move
		live := false
		for _, u := range s.threads {
			if u.status == TRunnable {
				live = true
			}
		}
		if live {
			s.finish("BLOCKED", s.blockedDetail())
		} else {
			s.finish("OK", "")
		}
		return false
	}
	k := 0
	if len(opts) > 1 {
		k = s.choose(w, len(opts))
		s.choices = append(s.choices, ChoiceRec{"sched", opts[k].id})
	}
	ch := opts[k]
	if ch != t && curEnabled {
		s.preempt++
	}
	if ch != t {
		s.tracef("switch T%d -> T%d", t.id, ch.id)
	}
	s.cur = ch.id
	ch.committed = true
	return true
}

func (s *State) blockedDetail() string {
	d := ""
	for _, u := range s.threads {
		if u.status != TRunnable {
			continue
		}
		fr := u.top()
		if fr == nil {
			continue
		}
		in := pendingInstr(u)
		d += fmt.Sprintf("T%d blocked in %s at %s: %s; ", u.id, fr.fn, s.eng.prog.Fset.Position(in.Pos()), in)
	}
	return d
}

func (s *State) execSend(w *Worker, t *Thread, fr *Frame, in *ssa.Send) {
	cv := s.operand(fr, in.Chan).(ChanRef)
	v := s.operand(fr, in.X)
	if cv.ID == 0 {
		s.finish("BLOCKED", "send on nil channel: "+s.blockedDetail())
		return
	}
	o := s.wobj(cv.ID)
	if o.closed {
		panic(goPanic{s.newError("send on closed channel")})
	}
	if len(o.buf) < o.capa {
		o.buf = append(o.buf, v)
		fr.pc++
		return
	}
	if o.capa == 0 {
		if u := s.partner(t, cv.ID, false); u != nil {
			ufr := u.top()
			rin := pendingInstr(u).(*ssa.UnOp)
			if rin.CommaOk {
				s.setReg(ufr, rin, Tuple{v, true})
			} else {
				s.setReg(ufr, rin, v)
			}
			ufr.pc++
			fr.pc++
			return
		}
	}
	// not enabled: must not happen when scheduled properly; treat as blocked
	s.mustBlock(w, t)
}

// mustBlock is reached when the current thread's operation is not enabled.
func (s *State) mustBlock(w *Worker, t *Thread) {
	t.committed = false
	if !s.schedule(w, t, false) {
		return
	}
}

func (s *State) execRecv(w *Worker, t *Thread, fr *Frame, in *ssa.UnOp) {
	cv := s.operand(fr, in.X).(ChanRef)
	et := in.X.Type().Underlying().(*types.Chan).Elem()
	deliver := func(v Value, ok bool) {
		if in.CommaOk {
			s.setReg(fr, in, Tuple{v, ok})
		} else {
			s.setReg(fr, in, v)
		}
		fr.pc++
	}
	if cv.ID == 0 {
		s.finish("BLOCKED", "receive from nil channel: "+s.blockedDetail())
		return
	}
	o := s.obj(cv.ID)
	if len(o.buf) > 0 {
		o = s.wobj(cv.ID)
		v := o.buf[0]
		o.buf = append([]Value(nil), o.buf[1:]...)
		deliver(v, true)
		return
	}
	if o.capa == 0 {
		if u := s.partner(t, cv.ID, true); u != nil {
			ufr := u.top()
			sin := pendingInstr(u).(*ssa.Send)
			v := s.operand(ufr, sin.X)
			ufr.pc++
			deliver(v, true)
			return
		}
	}
	if o.closed {
		deliver(zeroValue(et), false)
		return
	}
	s.mustBlock(w, t)
}

func (s *State) execSelect(w *Worker, t *Thread, fr *Frame, in *ssa.Select) {
	var ready []int
	for i, st := range in.States {
		cv := s.operand(fr, st.Chan)
		if st.Dir == types.SendOnly {
			if s.sendReady(t, cv) {
				ready = append(ready, i)
			}
		} else if s.recvReady(t, cv) {
			ready = append(ready, i)
		}
	}
	// result tuple: (index int, recvOk bool, r_0 T_0, ... r_n-1 T_n-1) for receive cases
	mk := func(idx int, recvOk bool, recvIdx int, recvVal Value) Tuple {
		tu := Tuple{uint64(int64(idx)), recvOk}
		for i, st := range in.States {
			if st.Dir == types.RecvOnly {
				et := st.Chan.Type().Underlying().(*types.Chan).Elem()
				if i == recvIdx {
					tu = append(tu, recvVal)
				} else {
					tu = append(tu, zeroValue(et))
				}
			}
		}
		return tu
	}
	if len(ready) == 0 {
		if !in.Blocking {
			s.setReg(fr, in, mk(-1, false, -1, nil))
			fr.pc++
			return
		}
		s.mustBlock(w, t)
		return
	}
	k := 0
	if len(ready) > 1 {
		k = s.choose(w, len(ready))
		s.choices = append(s.choices, ChoiceRec{"select", ready[k]})
	}
	i := ready[k]
	st := in.States[i]
	cv := s.operand(fr, st.Chan).(ChanRef)
	if st.Dir == types.SendOnly {
		o := s.wobj(cv.ID)
		if o.closed {
			panic(goPanic{s.newError("send on closed channel")})
		}
		v := s.operand(fr, st.Send)
		if len(o.buf) < o.capa {
			o.buf = append(o.buf, v)
		} else if u := s.partner(t, cv.ID, false); u != nil {
			ufr := u.top()
			rin := pendingInstr(u).(*ssa.UnOp)
			if rin.CommaOk {
				s.setReg(ufr, rin, Tuple{v, true})
			} else {
				s.setReg(ufr, rin, v)
			}
			ufr.pc++
		}
		s.setReg(fr, in, mk(i, false, -1, nil))
		fr.pc++
		return
	}
	o := s.obj(cv.ID)
	et := st.Chan.Type().Underlying().(*types.Chan).Elem()
	if len(o.buf) > 0 {
		o = s.wobj(cv.ID)
		v := o.buf[0]
		o.buf = append([]Value(nil), o.buf[1:]...)
		s.setReg(fr, in, mk(i, true, i, v))
	} else if u := s.partner(t, cv.ID, true); u != nil && o.capa == 0 {
		ufr := u.top()
		sin := pendingInstr(u).(*ssa.Send)
		v := s.operand(ufr, sin.X)
		ufr.pc++
		s.setReg(fr, in, mk(i, true, i, v))
	} else {
		s.setReg(fr, in, mk(i, false, i, zeroValue(et)))
	}
	fr.pc++
}

// ---------------------------------------------------------------------------
// builtins

func (s *State) builtin(w *Worker, t *Thread, fr *Frame, b *ssa.Builtin, args []Value, site ssa.Instruction) Value {
	switch b.Name() {
	case "len":
		switch x := args[0].(type) {
		case string:
			return uint64(len(x))
		case *SymStr:
			return uint64(len(x.B))
		case Slice:
			return uint64(x.Len)
		case MapRef:
			if x.ID == 0 {
				return uint64(0)
			}
			n := 0
			for _, e := range s.obj(x.ID).entries {
				if !e.Deleted {
					n++
				}
			}
			return uint64(n)
		case ChanRef:
			if x.ID == 0 {
				return uint64(0)
			}
			return uint64(len(s.obj(x.ID).buf))
		case Agg:
			return uint64(len(x))
		case Ptr: // *array
			call := site.(ssa.CallInstruction)
			at := call.Common().Args[0].Type().Underlying().(*types.Pointer).Elem().Underlying().(*types.Array)
			return uint64(at.Len())
		}
	case "cap":
		switch x := args[0].(type) {
		case Slice:
			return uint64(x.Cap)
		case ChanRef:
			if x.ID == 0 {
				return uint64(0)
			}
			return uint64(s.obj(x.ID).capa)
		}
	case "append":
		call := site.(ssa.CallInstruction)
		st := call.Common().Args[0].Type().Underlying().(*types.Slice)
		return s.appendSlice(args[0].(Slice), args[1], st.Elem())
	case "copy":
		call := site.(ssa.CallInstruction)
		st := call.Common().Args[0].Type().Underlying().(*types.Slice)
		es := int32(slotsOf(st.Elem()))
		dst := args[0].(Slice)
		var srcSlots []Value
		var n int32
		switch src := args[1].(type) {
		case Slice:
			n = src.Len
			if src.ID != 0 {
				srcSlots = s.obj(src.ID).slots[src.Off : src.Off+src.Len*es]
			}
		default:
			b := strBytes(args[1])
			n = int32(len(b))
			srcSlots = b
		}
		if dst.Len < n {
			n = dst.Len
		}
		if n > 0 {
			tmp := append([]Value(nil), srcSlots[:n*es]...)
			o := s.wobj(dst.ID)
			copy(o.slots[dst.Off:dst.Off+n*es], tmp)
		}
		return uint64(n)
	case "delete":
		m := args[0].(MapRef)
		if m.ID == 0 {
			return nil
		}
		if i := s.mapFind(w, m.ID, args[1]); i >= 0 {
			o := s.wobj(m.ID)
			o.entries = append(append([]MapEntry(nil), o.entries[:i]...), o.entries[i+1:]...)
		}
		return nil
	case "close":
		c := args[0].(ChanRef)
		if c.ID == 0 {
			panic(goPanic{s.newError("close of nil channel")})
		}
		o := s.wobj(c.ID)
		if o.closed {
			panic(goPanic{s.newError("close of closed channel")})
		}
		o.closed = true
		return nil
	case "recover":
		if fr != nil && fr.byUnwind && t.panicking {
			t.panicking = false
			v := t.panicVal
			t.panicVal = nil
			if _, ok := v.(Iface); !ok {
				v = Iface{}
			}
			return v
		}
		return Iface{}
	case "print", "println":
		return nil
	case "min", "max":
		call := site.(ssa.CallInstruction)
		typ := call.Common().Args[0].Type()
		acc := args[0]
		for _, a := range args[1:] {
			var lt Value
			if b.Name() == "min" {
				lt = s.binop(token.LSS, a, acc, typ, typ)
			} else {
				lt = s.binop(token.GTR, a, acc, typ, typ)
			}
			switch c := lt.(type) {
			case bool:
				if c {
					acc = a
				}
			case *Term:
				srt, ok := sortOfType(typ)
				if !ok {
					s.unsupported("symbolic min/max on %s", typ)
				}
				acc = mkIte(c, toTermBV(a, srt), toTermBV(acc, srt))
			}
		}
		return acc
	case "clear":
		switch x := args[0].(type) {
		case MapRef:
			if x.ID != 0 {
				s.wobj(x.ID).entries = nil
			}
		case Slice:
			// clear(slice): every element becomes the zero value, the length stays
			if x.ID != 0 && x.Len > 0 {
				var et types.Type
				if call, ok := site.(ssa.CallInstruction); ok && len(call.Common().Args) == 1 {
					if st, ok := call.Common().Args[0].Type().Underlying().(*types.Slice); ok {
						et = st.Elem()
					}
				}
				if et == nil {
					s.unsupported("clear on a slice of unknown element type")
				}
				n := slotsOf(et)
				o := s.wobj(x.ID)
				for i := int32(0); i < x.Len; i++ {
					z := appendZero(make([]Value, 0, n), et)
					copy(o.slots[int(x.Off)+int(i)*n:], z)
				}
			}
		default:
			s.unsupported("clear on %T", x)
		}
		return nil
	case "ssa:wrapnilchk":
		if p, ok := args[0].(Ptr); ok && p.ID == 0 {
			panic(goPanic{s.runtimeError("value method called using nil pointer")})
		}
		return args[0]
	}
	if call, ok := site.(ssa.CallInstruction); ok {
		var rt types.Type
		if v := call.Value(); v != nil {
			rt = v.Type()
		}
		if r, ok := s.unsafeBuiltin(b.Name(), args, rt); ok {
			return r
		}
	}
	s.unsupported("builtin %s(%T)", b.Name(), args[0])
	return nil
}

func (s *State) appendSlice(dst Slice, src Value, et types.Type) Value {
	es := int32(slotsOf(et))
	var add []Value
	switch x := src.(type) {
	case Slice:
		if x.ID != 0 && x.Len > 0 {
			add = append([]Value(nil), s.obj(x.ID).slots[x.Off:x.Off+x.Len*es]...)
		}
	default:
		add = strBytes(src)
	}
	n := int32(len(add)) / es
	if n == 0 {
		return dst
	}
	newLen := dst.Len + n
	if dst.ID != 0 && newLen <= dst.Cap {
		o := s.wobj(dst.ID)
		copy(o.slots[dst.Off+dst.Len*es:], add)
		return Slice{ID: dst.ID, Off: dst.Off, Len: newLen, Cap: dst.Cap}
	}
	newCap := newLen
	if dst.Cap > 0 {
		dbl := dst.Cap * 2
		if dst.Cap >= 256 {
			dbl = dst.Cap + dst.Cap/4 + 192
		}
		if dbl > newCap {
			newCap = dbl
		}
	}
	slots := make([]Value, 0, newCap*es)
	if dst.ID != 0 {
		slots = append(slots, s.obj(dst.ID).slots[dst.Off:dst.Off+dst.Len*es]...)
	}
	slots = append(slots, add...)
	for i := newLen; i < newCap; i++ {
		slots = appendZero(slots, et)
	}
	id := s.allocMem(slots)
	return Slice{ID: id, Len: newLen, Cap: newCap}
}
