package main

import (
	"strings"
	"sync/atomic"
	"fmt"
	"go/token"
	"go/types"
	"sync"

	"golang.org/x/tools/go/ssa"
)

type fnInfo struct {
	seen      uint32
	idx       map[ssa.Value]int32
	n         int
	name      string
	intrinsic Intrinsic
	redirect  *ssa.Function
	visible   bool
}

var fnInfos sync.Map

func (e *Engine) info(fn *ssa.Function) *fnInfo {
	if v, ok := fnInfos.Load(fn); ok {
		return v.(*fnInfo)
	}
	fi := &fnInfo{idx: map[ssa.Value]int32{}, name: fn.String()}
	n := int32(0)
	for _, p := range fn.Params {
		fi.idx[p] = n
		n++
	}
	for _, fv := range fn.FreeVars {
		fi.idx[fv] = n
		n++
	}
	for _, b := range fn.Blocks {
		for _, in := range b.Instrs {
			if v, ok := in.(ssa.Value); ok {
				fi.idx[v] = n
				n++
			}
		}
	}
	fi.n = int(n)
	key := fi.name
	if o := fn.Origin(); o != nil {
		// generic instantiation: also try the origin's name
		if in, ok := e.intrinsics[o.String()]; ok {
			fi.intrinsic = in
		}
		if e.visible[o.String()] {
			fi.visible = true
		}
	}
	if in, ok := e.intrinsics[key]; ok {
		fi.intrinsic = in
	}
	if rd, ok := e.redirects[key]; ok {
		fi.redirect = rd
	}
	if e.visible[key] {
		fi.visible = true
	}
	v, _ := fnInfos.LoadOrStore(fn, fi)
	return v.(*fnInfo)
}

func (s *State) operand(fr *Frame, v ssa.Value) Value {
	switch x := v.(type) {
	case *ssa.Const:
		return constValue(x)
	case *ssa.Global:
		return s.globalPtr(x)
	case *ssa.Function:
		return &Closure{Fn: x}
	case *ssa.Builtin:
		return x
	}
	i, ok := fr.info.idx[v]
	if !ok {
		s.unsupported("operand %s (%T) not found in %s", v.Name(), v, fr.fn)
	}
	return fr.locals[i]
}

func (s *State) setReg(fr *Frame, v ssa.Value, val Value) {
	fr.locals[fr.info.idx[v]] = val
}

func (s *State) globalPtr(g *ssa.Global) Value {
	if id, ok := s.eng.baseGlobals[g]; ok {
		return Ptr{ID: id}
	}
	if id, ok := s.extraGlobs[g]; ok {
		return Ptr{ID: id}
	}
	t := g.Type().(*types.Pointer).Elem()
	p := s.allocType(t)
	isOwn := g.Pkg != nil && strings.HasPrefix(g.Pkg.Pkg.Path(), logPath)
	if s.eng.initPhase {
		s.eng.baseGlobals[g] = p.ID
		if isOwn {
			s.eng.globalIDs[p.ID] = true
		}
	} else {
		if isOwn {
			if s.extraGlobIDs == nil {
				s.extraGlobIDs = map[int32]bool{}
			}
			s.extraGlobIDs[p.ID] = true
		}
		if s.extraGlobs == nil {
			s.extraGlobs = map[*ssa.Global]int32{}
		}
		s.extraGlobs[g] = p.ID
	}
	s.eng.initGlobal(s, g, p)
	return p
}

func (s *State) newFrame(fn *ssa.Function, args []Value, env []Value, destReg int32) *Frame {
	fi := s.eng.info(fn)
	fr := &Frame{fn: fn, info: fi, block: fn.Blocks[0], locals: make([]Value, fi.n), env: env, destReg: destReg}
	copy(fr.locals, args)
	copy(fr.locals[len(fn.Params):], env)
	return fr
}

type callCtx struct {
	s     *State
	w     *Worker
	t     *Thread
	fr    *Frame
	fn    *ssa.Function
	args  []Value
	site  ssa.Instruction
	dest  int32
	tail  bool // the intrinsic pushed a frame that will deliver the result
	block bool // the intrinsic cannot proceed (thread must wait)
}

type Intrinsic func(c *callCtx) Value

const maxDepth = 2000

// doCall invokes fnVal. The caller advances its pc afterwards.
func (s *State) doCall(w *Worker, t *Thread, fr *Frame, fnVal Value, args []Value, dest int32, site ssa.Instruction) {
	var fn *ssa.Function
	var env []Value
	switch f := fnVal.(type) {
	case *Closure:
		if f == nil {
			panic(goPanic{s.runtimeError("invalid memory address or nil pointer dereference (nil func)")})
		}
		fn, env = f.Fn, f.Env
	case *ssa.Builtin:
		res := s.builtin(w, t, fr, f, args, site)
		if dest >= 0 {
			fr.locals[dest] = res
		}
		return
	default:
		s.unsupported("call of %T", fnVal)
	}
	if fn.Synthetic == "package initializer" && fn.Pkg != nil && !s.eng.initAllow[fn.Pkg.Pkg.Path()] {
		return
	}
	fi := s.eng.info(fn)
	if fi.redirect != nil && (fi.name != logPath+"/expr.Parse" || s.opts.ExprTable) {
		fn = fi.redirect
		fi = s.eng.info(fn)
	}
	if fi.intrinsic != nil {
		if atomic.CompareAndSwapUint32(&fi.seen, 0, 1) {
			s.eng.intrinSeen.Store(fi.name, true)
		}
		cc := &callCtx{s: s, w: w, t: t, fr: fr, fn: fn, args: args, site: site, dest: dest}
		res := fi.intrinsic(cc)
		if cc.block {
			panic(blockSignal{})
		}
		if !cc.tail && dest >= 0 && fr != nil {
			fr.locals[dest] = res
		}
		return
	}
	if fn.Blocks == nil {
		s.unsupported("call of external function %s", fi.name)
	}
	// package os acts on the file-system model through intrinsics only: running the real body of any
	// other os function on model descriptors would give answers about the wrong world
	if fn.Pkg != nil && fn.Pkg.Pkg.Path() == "os" && !osPureFuncs[fi.name] {
		s.unsupported("%s is not covered by the file-system model", fi.name)
	}
	if len(t.frames) > maxDepth {
		s.abort("UNWIND", "call depth exceeds %d", maxDepth)
	}
	if atomic.CompareAndSwapUint32(&fi.seen, 0, 1) {
		s.eng.funcsSeen.Store(fi.name, true)
	}
	if s.eng.traceCalls && fn.Pkg != nil && strings.HasPrefix(fn.Pkg.Pkg.Path(), logPath) && !strings.HasPrefix(fn.Name(), "v") {
		as := make([]string, 0, len(args))
		for _, a := range args {
			d := s.evalDescribe(a)
			if len(d) > 40 {
				d = d[:40] + "…"
			}
			as = append(as, d)
		}
		s.tracef("T%d %s%s(%s)", t.id, strings.Repeat(" ", min(len(t.frames), 12)), fn.Name(), strings.Join(as, ", "))
	}
	nf := s.newFrame(fn, args, env, dest)
	nf.callSite = site
	t.frames = append(t.frames, nf)
}

// osPureFuncs: functions of package os whose real bodies only call modelled functions or touch no file.
var osPureFuncs = map[string]bool{
	"os.Open": true, "os.Create": true, "os.IsNotExist": true, "os.IsExist": true, "os.IsPermission": true,
	"os.IsTimeout": true, "os.underlyingError": true, "os.underlyingErrorIs": true, "(*os.File).WriteString": true,
	"(*os.SyscallError).Error": true, "(*os.LinkError).Error": true, "os.NewSyscallError": true,
	"(*os.SyscallError).Unwrap": true, "(*os.LinkError).Unwrap": true,
}

type blockSignal struct{}

// fallthroughToBody lets an intrinsic decline and run the SSA body instead.
func (c *callCtx) runBody() Value {
	if c.fn.Blocks == nil {
		c.s.unsupported("no body for %s", c.fn)
	}
	fi := c.s.eng.info(c.fn)
	nf := c.s.newFrame(c.fn, c.args, nil, c.dest)
	_ = fi
	nf.callSite = c.site
	c.t.frames = append(c.t.frames, nf)
	c.tail = true
	return nil
}

// tailCall makes fnVal's result the result of the current intrinsic call.
func (c *callCtx) tailCall(fnVal Value, args []Value) Value {
	cl := fnVal.(*Closure)
	if in := c.s.eng.info(cl.Fn).intrinsic; in != nil {
		cc := *c
		cc.fn, cc.args = cl.Fn, args
		return in(&cc)
	}
	nf := c.s.newFrame(cl.Fn, args, cl.Env, c.dest)
	nf.callSite = c.site
	c.t.frames = append(c.t.frames, nf)
	c.tail = true
	return nil
}

func (s *State) callArgs(fr *Frame, cc *ssa.CallCommon) (Value, []Value) {
	if cc.IsInvoke() {
		recv := s.operand(fr, cc.Value)
		iv, ok := recv.(Iface)
		if !ok {
			s.unsupported("invoke on %T", recv)
		}
		if iv.T == nil {
			panic(goPanic{s.runtimeError("invalid memory address or nil pointer dereference (nil interface method call " + cc.Method.Name() + ")")})
		}
		m := s.eng.lookupMethod(iv.T, cc.Method)
		if m == nil {
			s.unsupported("method %s not found on %s", cc.Method.Name(), iv.T)
		}
		args := make([]Value, 0, len(cc.Args)+1)
		args = append(args, iv.V)
		for _, a := range cc.Args {
			args = append(args, s.operand(fr, a))
		}
		return &Closure{Fn: m}, args
	}
	fnVal := s.operand(fr, cc.Value)
	args := make([]Value, len(cc.Args))
	for i, a := range cc.Args {
		args[i] = s.operand(fr, a)
	}
	return fnVal, args
}

var methodCache sync.Map

type methodKey struct {
	t *RType
	m *types.Func
}

func (e *Engine) lookupMethod(rt *RType, m *types.Func) *ssa.Function {
	k := methodKey{rt, m}
	if v, ok := methodCache.Load(k); ok {
		return v.(*ssa.Function)
	}
	e.methMu.Lock()
	fn := e.prog.LookupMethod(rt.T, m.Pkg(), m.Name())
	e.methMu.Unlock()
	if fn != nil {
		methodCache.Store(k, fn)
	}
	return fn
}

// raise starts a Go-level panic in thread t.
func (s *State) raise(t *Thread, val Value) {
	t.panicking = true
	t.panicVal = val
	t.unwindAt = -1
}

// unwindStep advances panic unwinding by one action.
func (s *State) unwindStep(w *Worker, t *Thread) {
	fr := t.top()
	if fr == nil {
		s.finishPanic(t)
		return
	}
	if len(fr.defers) > 0 {
		d := fr.defers[len(fr.defers)-1]
		fr.defers = fr.defers[:len(fr.defers)-1]
		fr.unwinding = true
		n := len(t.frames)
		t.unwindAt = n - 1
		s.doCallSafe(w, t, fr, d)
		if len(t.frames) > n {
			nf := t.top()
			nf.byUnwind = true
			nf.byDefer = true
		}
		return
	}
	// no more defers: pop the frame and keep unwinding
	t.frames = t.frames[:len(t.frames)-1]
	t.unwindAt = -1
}

func (s *State) finishPanic(t *Thread) {
	msg := s.panicMessage(t.panicVal)
	s.finish("PANIC", msg)
}

func (s *State) panicMessage(v Value) string {
	iv, ok := v.(Iface)
	if !ok {
		return describe(v)
	}
	if iv.T == nil {
		return "panic(nil)"
	}
	if iv.T == s.eng.errStringPtrType {
		if p, ok := iv.V.(Ptr); ok && p.ID != 0 {
			return describe(s.obj(p.ID).slots[p.Off])
		}
	}
	return iv.T.Str + ": " + describe(iv.V)
}

// finishRecovered makes fr return after a recovered panic.
func (s *State) finishRecovered(t *Thread, fr *Frame) {
	fr.unwinding = false
	if fr.fn.Recover != nil {
		fr.prev = fr.block
		fr.block = fr.fn.Recover
		fr.pc = 0
		return
	}
	// return zero values
	res := fr.fn.Signature.Results()
	var rv Value
	switch res.Len() {
	case 0:
	case 1:
		rv = zeroValue(res.At(0).Type())
	default:
		rv = zeroValue(res)
	}
	s.popFrame(t, rv)
}

func (s *State) popFrame(t *Thread, rv Value) {
	fr := t.top()
	t.frames = t.frames[:len(t.frames)-1]
	if fr.post != nil {
		rv = fr.post(s, rv)
	}
	caller := t.top()
	if caller == nil {
		t.status = TDone
		return
	}
	if fr.destReg >= 0 {
		caller.locals[fr.destReg] = rv
	}
}

const defaultLoopBound = 64

// jump transfers control to block b, evaluating phis.
func (s *State) jump(t *Thread, fr *Frame, b *ssa.BasicBlock) {
	// loop bound on back edges: iterations that took a symbolic decision count against the
	// unwinding bound; purely concrete iterations only against a large divergence bound
	if b.Index <= fr.block.Index {
		if fr.visits == nil {
			fr.visits = map[int]int{}
			fr.symAtLoop = map[int]int{}
		}
		const concBase = 1 << 20
		if last, ok := fr.symAtLoop[b.Index]; ok && last == t.symBr {
			c := fr.visits[b.Index+concBase] + 1
			fr.visits[b.Index+concBase] = c
			if c > s.eng.divergeBound {
				if !s.othersRunnable(t) {
					s.finish("DIVERGE", fmt.Sprintf("loop in %s (block %d) ran %d iterations with concrete conditions and no other runnable thread", fr.fn, b.Index, c))
				} else {
					s.finish("UNWIND", fmt.Sprintf("concrete loop bound %d hit in %s block %d", c, fr.fn, b.Index))
				}
				return
			}
		} else {
			n := fr.visits[b.Index] + 1
			fr.visits[b.Index] = n
			fr.visits[b.Index+concBase] = 0
			for k := range fr.visits { // re-entering an outer header resets the inner loops' counts
				if k > b.Index && k < concBase {
					delete(fr.visits, k)
				}
			}
			if n > s.opts.LoopBound {
				s.finish("UNWIND", fmt.Sprintf("loop bound %d hit in %s block %d", s.opts.LoopBound, fr.fn, b.Index))
				return
			}
		}
		fr.symAtLoop[b.Index] = t.symBr
	}
	pred := fr.block
	fr.prev = pred
	fr.block = b
	fr.pc = 0
	// phis
	pi := -1
	for i, p := range b.Preds {
		if p == pred {
			pi = i
			break
		}
	}
	var vals []Value
	nphi := 0
	for _, in := range b.Instrs {
		phi, ok := in.(*ssa.Phi)
		if !ok {
			break
		}
		vals = append(vals, s.operand(fr, phi.Edges[pi]))
		nphi++
	}
	for i := 0; i < nphi; i++ {
		s.setReg(fr, b.Instrs[i].(*ssa.Phi), vals[i])
	}
	fr.pc = nphi
}

func (s *State) othersRunnable(t *Thread) bool {
	for _, u := range s.threads {
		if u != t && u.status == TRunnable && s.enabled(u) {
			return true
		}
	}
	return false
}

// step executes one instruction of thread t.
func (s *State) step(w *Worker, t *Thread) {
	fr := t.top()
	if len(s.pending) == 0 {
		s.made = s.made[:0]
		s.symUndo = s.symUndo[:0]
	}
	defer func() {
		if r := recover(); r != nil {
			switch p := r.(type) {
			case goPanic:
				s.raise(t, p.val)
			default:
				panic(r)
			}
		}
	}()
	instr := fr.block.Instrs[fr.pc]
	s.steps++
	switch in := instr.(type) {
	case *ssa.DebugRef:
		fr.pc++
	case *ssa.Alloc:
		s.setReg(fr, in, s.allocType(in.Type().(*types.Pointer).Elem()))
		fr.pc++
	case *ssa.BinOp:
		x, y := s.operand(fr, in.X), s.operand(fr, in.Y)
		if in.Op == token.QUO || in.Op == token.REM {
			if _, _, ok := intInfo(in.X.Type()); ok {
				var isz Value
				if t, ok := y.(*Term); ok && t.Sort == SInt {
					isz = mkEq(t, mkIntC(0))
				} else {
					isz = s.eqValue(y, uint64(0))
				}
				if s.branch(w, isz) {
					panic(goPanic{s.runtimeError("integer divide by zero")})
				}
			}
		}
		s.setReg(fr, in, s.binop(in.Op, x, y, in.X.Type(), in.Y.Type()))
		fr.pc++
	case *ssa.UnOp:
		s.execUnOp(w, t, fr, in)
	case *ssa.Store:
		s.store(s.operand(fr, in.Addr), s.operand(fr, in.Val), in.Val.Type())
		fr.pc++
	case *ssa.FieldAddr:
		x := s.operand(fr, in.X)
		st := in.X.Type().Underlying().(*types.Pointer).Elem().Underlying().(*types.Struct)
		off := int32(fieldOffset(st, in.Field))
		switch p := x.(type) {
		case Ptr:
			if p.ID == 0 {
				panic(goPanic{s.runtimeError("invalid memory address or nil pointer dereference")})
			}
			s.setReg(fr, in, Ptr{ID: p.ID, Off: p.Off + off})
		case SymPtr:
			p.Base += off
			s.setReg(fr, in, p)
		default:
			s.unsupported("FieldAddr on %T", x)
		}
		fr.pc++
	case *ssa.Field:
		x := s.operand(fr, in.X).(Agg)
		st := in.X.Type().Underlying().(*types.Struct)
		off := fieldOffset(st, in.Field)
		ft := st.Field(in.Field).Type()
		if isAggType(ft) {
			s.setReg(fr, in, Agg(x[off:off+slotsOf(ft)]))
		} else {
			s.setReg(fr, in, x[off])
		}
		fr.pc++
	case *ssa.IndexAddr:
		s.execIndexAddr(w, fr, in)
		fr.pc++
	case *ssa.Index:
		s.execIndex(w, fr, in)
		fr.pc++
	case *ssa.Lookup:
		s.execLookup(w, fr, in)
		fr.pc++
	case *ssa.Slice:
		s.execSlice(w, fr, in)
		fr.pc++
	case *ssa.MakeSlice:
		n := int(s.concretize(w, s.operand(fr, in.Len), "make len"))
		c := int(s.concretize(w, s.operand(fr, in.Cap), "make cap"))
		if n < 0 || c < n || c > 1<<24 {
			panic(goPanic{s.runtimeError("makeslice: len out of range")})
		}
		et := in.Type().Underlying().(*types.Slice).Elem()
		es := slotsOf(et)
		slots := make([]Value, 0, c*es)
		for i := 0; i < c; i++ {
			slots = appendZero(slots, et)
		}
		id := s.allocMem(slots)
		s.setReg(fr, in, Slice{ID: id, Len: int32(n), Cap: int32(c)})
		fr.pc++
	case *ssa.MakeMap:
		id := s.alloc(&Object{kind: KMap})
		s.setReg(fr, in, MapRef{ID: id})
		fr.pc++
	case *ssa.MakeChan:
		c := int(s.concretize(w, s.operand(fr, in.Size), "chan size"))
		if s.opts.ChanCap > 0 && c >= 100 { // the async logger's buffer (BufferSize >= 100 is enforced by Start)
			c = s.opts.ChanCap
		}
		id := s.alloc(&Object{kind: KChan, capa: c})
		s.setReg(fr, in, ChanRef{ID: id})
		fr.pc++
	case *ssa.MakeClosure:
		env := make([]Value, len(in.Bindings))
		for i, b := range in.Bindings {
			env[i] = s.operand(fr, b)
		}
		s.setReg(fr, in, &Closure{Fn: in.Fn.(*ssa.Function), Env: env})
		fr.pc++
	case *ssa.MakeInterface:
		s.setReg(fr, in, Iface{T: rtypeOf(in.X.Type()), V: s.operand(fr, in.X)})
		fr.pc++
	case *ssa.ChangeInterface:
		s.setReg(fr, in, s.operand(fr, in.X))
		fr.pc++
	case *ssa.ChangeType:
		s.setReg(fr, in, s.operand(fr, in.X))
		fr.pc++
	case *ssa.Convert:
		s.setReg(fr, in, s.convert(w, s.operand(fr, in.X), in.X.Type(), in.Type()))
		fr.pc++
	case *ssa.SliceToArrayPointer:
		sl := s.operand(fr, in.X).(Slice)
		n := in.Type().Underlying().(*types.Pointer).Elem().Underlying().(*types.Array).Len()
		if int64(sl.Len) < n {
			panic(goPanic{s.runtimeError("cannot convert slice to array pointer: length too short")})
		}
		s.setReg(fr, in, Ptr{ID: sl.ID, Off: sl.Off})
		fr.pc++
	case *ssa.Extract:
		s.setReg(fr, in, s.operand(fr, in.Tuple).(Tuple)[in.Index])
		fr.pc++
	case *ssa.TypeAssert:
		s.execTypeAssert(fr, in)
		fr.pc++
	case *ssa.MapUpdate:
		m := s.operand(fr, in.Map).(MapRef)
		if m.ID == 0 {
			panic(goPanic{s.newError("assignment to entry in nil map")})
		}
		k, v := s.operand(fr, in.Key), s.operand(fr, in.Value)
		idx := s.mapFind(w, m.ID, k)
		o := s.wobj(m.ID)
		if idx >= 0 {
			o.entries[idx].V = v
		} else {
			o.entries = append(o.entries, MapEntry{K: k, V: v})
		}
		fr.pc++
	case *ssa.Range:
		s.execRange(w, fr, in)
		fr.pc++
	case *ssa.Next:
		s.execNext(w, fr, in)
		fr.pc++
	case *ssa.Phi:
		s.unsupported("stray phi")
	case *ssa.Jump:
		s.jump(t, fr, fr.block.Succs[0])
	case *ssa.If:
		c := s.operand(fr, in.Cond)
		if s.branch(w, c) {
			s.jump(t, fr, fr.block.Succs[0])
		} else {
			s.jump(t, fr, fr.block.Succs[1])
		}
	case *ssa.Return:
		var rv Value
		switch len(in.Results) {
		case 0:
		case 1:
			rv = s.operand(fr, in.Results[0])
		default:
			tu := make(Tuple, len(in.Results))
			for i, r := range in.Results {
				tu[i] = s.operand(fr, r)
			}
			rv = tu
		}
		s.popFrame(t, rv)
	case *ssa.Panic:
		panic(goPanic{s.operand(fr, in.X)})
	case *ssa.RunDefers:
		if len(fr.defers) > 0 {
			d := fr.defers[len(fr.defers)-1]
			fr.defers = fr.defers[:len(fr.defers)-1]
			n := len(t.frames)
			s.doCall(w, t, fr, d.fn, d.args, -1, d.call)
			if len(t.frames) > n {
				t.top().byDefer = true
			}
		} else {
			fr.pc++
		}
	case *ssa.Defer:
		fnVal, args := s.callArgs(fr, &in.Call)
		fr.defers = append(fr.defers, Deferred{fn: fnVal, args: args, call: in})
		fr.pc++
	case *ssa.Go:
		fnVal, args := s.callArgs(fr, &in.Call)
		s.spawn(w, t, fnVal, args, in)
		fr.pc++
	case *ssa.Call:
		fnVal, args := s.callArgs(fr, &in.Call)
		dest := fr.info.idx[in]
		s.doCall(w, t, fr, fnVal, args, dest, in)
		fr.pc++
	case *ssa.Send:
		s.execSend(w, t, fr, in)
	case *ssa.Select:
		s.execSelect(w, t, fr, in)
	default:
		s.unsupported("instruction %T: %s", instr, instr)
	}
}

func (s *State) execUnOp(w *Worker, t *Thread, fr *Frame, in *ssa.UnOp) {
	switch in.Op {
	case token.MUL:
		p := s.operand(fr, in.X)
		if sp, ok := p.(SymPtr); ok {
			s.setReg(fr, in, s.loadSym(sp, in.Type()))
		} else {
			s.setReg(fr, in, s.load(p, in.Type()))
		}
		fr.pc++
	case token.ARROW:
		s.execRecv(w, t, fr, in)
	default:
		s.setReg(fr, in, s.unop(in.Op, s.operand(fr, in.X), in.X.Type()))
		fr.pc++
	}
}

// SymPtr is a pointer Base + Idx*Stride into object ID with 0 <= Idx < N (read-only use).
type SymPtr struct {
	ID     int32
	Base   int32
	Stride int32
	Idx    *Term
	N      int32
}

func (s *State) loadSym(p SymPtr, t types.Type) Value {
	o := s.obj(p.ID)
	if isStringType(t) {
		cands := make([]Value, p.N)
		for i := int32(0); i < p.N; i++ {
			cands[i] = o.slots[p.Base+i*p.Stride]
		}
		if v, ok := s.selectByGroups(s.curWorker, p.Idx, cands); ok {
			return v
		}
		// fall back: concretise the index
		c := s.concretize(s.curWorker, p.Idx, "table index")
		return o.slots[p.Base+int32(c)*p.Stride]
	}
	sorts := slotSorts(nil, t)
	out := make(Agg, len(sorts))
	for k := range sorts {
		cands := make([]Value, p.N)
		for i := int32(0); i < p.N; i++ {
			cands[i] = o.slots[p.Base+i*p.Stride+int32(k)]
		}
		out[k] = s.iteTreeW(p.Idx, cands, sorts[k])
	}
	if isAggType(t) {
		return out
	}
	return out[0]
}

func slotSorts(dst []Sort, t types.Type) []Sort {
	if st, ok := t.Underlying().(*types.Struct); ok {
		for i := 0; i < st.NumFields(); i++ {
			dst = slotSorts(dst, st.Field(i).Type())
		}
		return dst
	}
	srt, _ := sortOfType(t)
	return append(dst, srt)
}

func (s *State) iteTreeW(idx *Term, cands []Value, sort Sort) Value {
	allEq := true
	for _, c := range cands {
		if c != cands[0] {
			allEq = false
			break
		}
	}
	if allEq {
		return cands[0]
	}
	lift := func(v Value) *Term {
		switch x := v.(type) {
		case *Term:
			return x
		case bool:
			return mkBool(x)
		case uint64:
			return mkBV(x, sort)
		}
		s.unsupported("symbolic index into non-scalar data (%T)", v)
		return nil
	}
	var build func(lo, hi int) *Term
	build = func(lo, hi int) *Term {
		if lo == hi {
			return lift(cands[lo])
		}
		mid := (lo + hi + 1) / 2
		var c *Term
		if idx.Sort == SInt {
			c = mkCmp(OILt, idx, mkIntC(int64(mid)))
		} else {
			c = mkCmp(OUlt, idx, mkBV(uint64(mid), idx.Sort))
		}
		return mkIte(c, build(lo, mid-1), build(mid, hi))
	}
	return build(0, len(cands)-1)
}

func sortOfType(t types.Type) (Sort, bool) {
	if w, _, ok := intInfo(t); ok {
		return w, true
	}
	if isBoolType(t) {
		return SBool, true
	}
	return 0, false
}

// boundsCheck branches on 0 <= idx < n (idx int-typed, maybe symbolic) and panics when outside.
func (s *State) boundsCheck(w *Worker, idx Value, n int, what string) {
	if c, ok := idx.(uint64); ok {
		if int64(c) < 0 || int64(c) >= int64(n) {
			panic(goPanic{s.runtimeError(fmt.Sprintf("index out of range [%d] with length %d", int64(c), n))})
		}
		return
	}
	t := idx.(*Term)
	var ok *Term
	if t.Sort == SInt {
		ok = mkAndB(mkCmp(OILe, mkIntC(0), t), mkCmp(OILt, t, mkIntC(int64(n))))
	} else {
		// unsigned compare covers negative values too
		ok = mkCmp(OUlt, t, mkBV(uint64(n), t.Sort))
	}
	if !s.branch(w, ok) {
		panic(goPanic{s.runtimeError(fmt.Sprintf("index out of range (symbolic) with length %d (%s)", n, what))})
	}
}

func (s *State) execIndexAddr(w *Worker, fr *Frame, in *ssa.IndexAddr) {
	x := s.operand(fr, in.X)
	idx := s.operand(fr, in.Index)
	// normalise index width to 64 bits
	idx = s.toInt64(idx, in.Index.Type())
	var id, base int32
	var n int
	var et types.Type
	switch xt := in.X.Type().Underlying().(type) {
	case *types.Slice:
		sl := x.(Slice)
		id, base, n, et = sl.ID, sl.Off, int(sl.Len), xt.Elem()
	case *types.Pointer:
		at := xt.Elem().Underlying().(*types.Array)
		p, ok := x.(Ptr)
		if !ok {
			s.unsupported("IndexAddr on %T", x)
		}
		if p.ID == 0 {
			panic(goPanic{s.runtimeError("invalid memory address or nil pointer dereference")})
		}
		id, base, n, et = p.ID, p.Off, int(at.Len()), at.Elem()
	default:
		s.unsupported("IndexAddr on type %s", in.X.Type())
	}
	s.boundsCheck(w, idx, n, in.String())
	es := int32(slotsOf(et))
	if c, ok := idx.(uint64); ok {
		s.setReg(fr, in, Ptr{ID: id, Off: base + int32(c)*es})
		return
	}
	// symbolic in-range index: symbolic pointer when only read, see loadSym
	if s.onlyLoaded(in) {
		s.setReg(fr, in, SymPtr{ID: id, Base: base, Stride: es, Idx: idx.(*Term), N: int32(n)})
		return
	}
	c := s.concretize(w, idx, "index "+in.String())
	s.setReg(fr, in, Ptr{ID: id, Off: base + int32(c)*es})
}

var onlyLoadedCache sync.Map

// onlyLoaded reports whether every use of the address is a load or a field address that is only loaded.
func (s *State) onlyLoaded(v ssa.Value) bool {
	if r, ok := onlyLoadedCache.Load(v); ok {
		return r.(bool)
	}
	res := true
	refs := v.Referrers()
	if refs == nil {
		res = false
	} else {
		for _, r := range *refs {
			switch u := r.(type) {
			case *ssa.UnOp:
				if u.Op != token.MUL {
					res = false
				} else if !scalarOrSmall(u.Type()) {
					res = false
				}
			case *ssa.FieldAddr:
				if !s.onlyLoaded(u) {
					res = false
				}
			case *ssa.DebugRef:
			default:
				res = false
			}
		}
	}
	onlyLoadedCache.Store(v, res)
	return res
}

func scalarOrSmall(t types.Type) bool {
	if _, ok := sortOfType(t); ok {
		return true
	}
	if isStringType(t) {
		return true // read through selectByGroups
	}
	if st, ok := t.Underlying().(*types.Struct); ok {
		for i := 0; i < st.NumFields(); i++ {
			if _, ok := sortOfType(st.Field(i).Type()); !ok {
				return false
			}
		}
		return true
	}
	return false
}

func (s *State) toInt64(v Value, t types.Type) Value {
	w, signed, ok := intInfo(t)
	if !ok {
		s.unsupported("index of type %s", t)
	}
	if w == 64 {
		return v
	}
	switch x := v.(type) {
	case uint64:
		if signed {
			return uint64(sext(x, w))
		}
		return x
	case *Term:
		if x.Sort == SInt {
			return x
		}
		if signed {
			return mkSExt(x, 64)
		}
		return mkZExt(x, 64)
	}
	return v
}

func (s *State) execIndex(w *Worker, fr *Frame, in *ssa.Index) {
	x := s.operand(fr, in.X)
	idx := s.toInt64(s.operand(fr, in.Index), in.Index.Type())
	switch xt := in.X.Type().Underlying().(type) {
	case *types.Array:
		a := x.(Agg)
		n := int(xt.Len())
		s.boundsCheck(w, idx, n, in.String())
		es := slotsOf(xt.Elem())
		c, ok := idx.(uint64)
		if !ok {
			if srt, ok := sortOfType(xt.Elem()); ok && es == 1 {
				s.setReg(fr, in, s.iteTreeW(idx.(*Term), a, srt))
				return
			}
			if es == 1 {
				if v, ok := s.selectByGroups(w, idx.(*Term), a); ok {
					s.setReg(fr, in, v)
					return
				}
			}
			c = s.concretize(w, idx, "array index")
		}
		if isAggType(xt.Elem()) {
			s.setReg(fr, in, Agg(a[int(c)*es:(int(c)+1)*es]))
		} else {
			s.setReg(fr, in, a[c])
		}
	case *types.Basic:
		n := strLen(x)
		s.boundsCheck(w, idx, n, in.String())
		if c, ok := idx.(uint64); ok {
			s.setReg(fr, in, strIndex(x, int(c)))
		} else {
			s.setReg(fr, in, s.iteTreeW(idx.(*Term), strBytes(x), 8))
		}
	default:
		s.unsupported("Index on %s", in.X.Type())
	}
}

func (s *State) execLookup(w *Worker, fr *Frame, in *ssa.Lookup) {
	x := s.operand(fr, in.X)
	if isStringType(in.X.Type()) {
		idx := s.toInt64(s.operand(fr, in.Index), in.Index.Type())
		n := strLen(x)
		s.boundsCheck(w, idx, n, in.String())
		if c, ok := idx.(uint64); ok {
			s.setReg(fr, in, strIndex(x, int(c)))
		} else {
			s.setReg(fr, in, s.iteTreeW(idx.(*Term), strBytes(x), 8))
		}
		return
	}
	m := x.(MapRef)
	k := s.operand(fr, in.Index)
	vt := in.X.Type().Underlying().(*types.Map).Elem()
	var val Value
	found := false
	if m.ID != 0 {
		if i := s.mapFind(w, m.ID, k); i >= 0 {
			val = s.obj(m.ID).entries[i].V
			found = true
		}
	}
	if !found {
		val = zeroValue(vt)
	}
	if in.CommaOk {
		s.setReg(fr, in, Tuple{val, found})
	} else {
		s.setReg(fr, in, val)
	}
}

// mapFind returns the entry index of key k, branching on symbolic comparisons.
func (s *State) mapFind(w *Worker, id int32, k Value) int {
	o := s.obj(id)
	for i := range o.entries {
		e := &o.entries[i]
		if e.Deleted {
			continue
		}
		eq := s.eqValue(k, e.K)
		if b, ok := eq.(bool); ok {
			if b {
				return i
			}
			continue
		}
		if s.branch(w, eq) {
			return i
		}
		o = s.obj(id)
	}
	return -1
}

func (s *State) execSlice(w *Worker, fr *Frame, in *ssa.Slice) {
	x := s.operand(fr, in.X)
	get := func(v ssa.Value) (Value, bool) {
		if v == nil {
			return nil, false
		}
		return s.toInt64(s.operand(fr, v), v.Type()), true
	}
	lo, hasLo := get(in.Low)
	hi, hasHi := get(in.High)
	mx, hasMax := get(in.Max)
	var length, capa int
	var id, base int32
	var es int32 = 1
	isStr := false
	switch xt := in.X.Type().Underlying().(type) {
	case *types.Basic:
		isStr = true
		length = strLen(x)
		capa = length
	case *types.Slice:
		sl := x.(Slice)
		id, base, length, capa = sl.ID, sl.Off, int(sl.Len), int(sl.Cap)
		es = int32(slotsOf(xt.Elem()))
	case *types.Pointer:
		at := xt.Elem().Underlying().(*types.Array)
		p := x.(Ptr)
		if p.ID == 0 {
			panic(goPanic{s.runtimeError("invalid memory address or nil pointer dereference")})
		}
		id, base, length, capa = p.ID, p.Off, int(at.Len()), int(at.Len())
		es = int32(slotsOf(at.Elem()))
	default:
		s.unsupported("Slice on %s", in.X.Type())
	}
	if !hasLo {
		lo = uint64(0)
	}
	if !hasHi {
		hi = uint64(length)
	}
	limit := capa
	if isStr {
		limit = length
	}
	if !hasMax {
		mx = uint64(limit)
	}
	// bounds: 0 <= lo <= hi <= mx <= limit
	le := func(a, b Value) Value {
		ca, oka := a.(uint64)
		cb, okb := b.(uint64)
		if oka && okb {
			return int64(ca) <= int64(cb)
		}
		var ta, tb *Term
		lia := false
		if t, ok := a.(*Term); ok && t.Sort == SInt {
			lia = true
		}
		if t, ok := b.(*Term); ok && t.Sort == SInt {
			lia = true
		}
		if lia {
			lift := func(v Value) *Term {
				if t, ok := v.(*Term); ok {
					return t
				}
				return mkIntC(int64(v.(uint64)))
			}
			return mkCmp(OILe, lift(a), lift(b))
		}
		ta, tb = toTermBV(a, 64), toTermBV(b, 64)
		return mkCmp(OSle, ta, tb)
	}
	ok := andValue(andValue(le(uint64(0), lo), le(lo, hi)), andValue(le(hi, mx), le(mx, uint64(limit))))
	if !s.branch(w, ok) {
		panic(goPanic{s.runtimeError(fmt.Sprintf("slice bounds out of range (%s)", in.String()))})
	}
	l := int(s.concretize(w, lo, "slice low"))
	h := int(s.concretize(w, hi, "slice high"))
	m := int(s.concretize(w, mx, "slice max"))
	if isStr {
		s.setReg(fr, in, strSlice(x, l, h))
		return
	}
	if id == 0 {
		s.setReg(fr, in, Slice{})
		return
	}
	s.setReg(fr, in, Slice{ID: id, Off: base + int32(l)*es, Len: int32(h - l), Cap: int32(m - l)})
}

func (s *State) execTypeAssert(fr *Frame, in *ssa.TypeAssert) {
	x := s.operand(fr, in.X).(Iface)
	ok := false
	var res Value
	if _, isIface := in.AssertedType.Underlying().(*types.Interface); isIface {
		if x.T != nil && s.eng.implements(x.T, in.AssertedType) {
			ok = true
			res = x
		} else {
			res = Iface{}
		}
	} else {
		if x.T != nil && types.Identical(x.T.T, in.AssertedType) {
			ok = true
			res = x.V
		} else {
			res = zeroValue(in.AssertedType)
		}
	}
	if in.CommaOk {
		s.setReg(fr, in, Tuple{res, ok})
		return
	}
	if !ok {
		from := "nil"
		if x.T != nil {
			from = x.T.Str
		}
		panic(goPanic{s.runtimeError(fmt.Sprintf("interface conversion: interface is %s, not %s", from, in.AssertedType))})
	}
	s.setReg(fr, in, res)
}

var implCache sync.Map

type implKey struct {
	t *RType
	i string
}

func (e *Engine) implements(rt *RType, it types.Type) bool {
	k := implKey{rt, types.TypeString(it, nil)}
	if v, ok := implCache.Load(k); ok {
		return v.(bool)
	}
	r := types.Implements(rt.T, it.Underlying().(*types.Interface))
	implCache.Store(k, r)
	return r
}

// ---------------------------------------------------------------------------
// range / next

func (s *State) execRange(w *Worker, fr *Frame, in *ssa.Range) {
	x := s.operand(fr, in.X)
	it := &Object{kind: KIter}
	if isStringType(in.X.Type()) {
		it.iterStr = x
	} else {
		m := x.(MapRef)
		it.iterMap = m.ID
		if m.ID != 0 {
			o := s.obj(m.ID)
			for _, e := range o.entries {
				if !e.Deleted {
					it.iterKeys = append(it.iterKeys, e.K)
				}
			}
			it.iterKeys = s.permuteKeys(w, it.iterKeys)
		}
	}
	id := s.alloc(it)
	s.setReg(fr, in, Ptr{ID: id})
}

// permuteKeys picks an iteration order: all permutations up to MapPermute entries, else insertion order (or reversed).
func (s *State) permuteKeys(w *Worker, keys []Value) []Value {
	n := len(keys)
	if n <= 1 || s.opts.MapOrder == 0 {
		return keys
	}
	if s.opts.MapOrder == 3 {
		// one global choice per path: every map iterates in insertion order, or every map in reverse
		if s.mapRev == 0 {
			k := s.choose(w, 2)
			s.choices = append(s.choices, ChoiceRec{"maporder-all", k})
			s.mapRev = 1 + k
		}
		if s.mapRev == 2 {
			out := make([]Value, n)
			for i := range keys {
				out[n-1-i] = keys[i]
			}
			return out
		}
		return keys
	}
	if n <= 3 && s.opts.MapOrder >= 2 {
		f := 1
		for i := 2; i <= n; i++ {
			f *= i
		}
		k := s.choose(w, f)
		s.choices = append(s.choices, ChoiceRec{"maporder", k})
		out := append([]Value(nil), keys...)
		// decode k as a permutation (Lehmer code)
		res := make([]Value, 0, n)
		for i := n; i >= 1; i-- {
			f /= i
			j := k / f
			k %= f
			res = append(res, out[j])
			out = append(out[:j], out[j+1:]...)
		}
		return res
	}
	k := s.choose(w, 2)
	s.choices = append(s.choices, ChoiceRec{"maporder", k})
	if k == 1 {
		out := make([]Value, n)
		for i := range keys {
			out[n-1-i] = keys[i]
		}
		return out
	}
	return keys
}

func (s *State) execNext(w *Worker, fr *Frame, in *ssa.Next) {
	p := s.operand(fr, in.Iter).(Ptr)
	it := s.wobj(p.ID)
	if in.IsString {
		str := it.iterStr
		n := strLen(str)
		if it.iterPos >= n {
			s.setReg(fr, in, Tuple{false, uint64(0), uint64(0)})
			return
		}
		pos := it.iterPos
		if cs, ok := str.(string); ok {
			r, size := decodeRune(cs[pos:])
			it.iterPos += size
			s.setReg(fr, in, Tuple{true, uint64(pos), uint64(uint32(r))})
			return
		}
		b := strIndex(str, pos)
		if c, ok := b.(uint64); ok && c < 0x80 {
			it.iterPos++
			s.setReg(fr, in, Tuple{true, uint64(pos), c})
			return
		}
		if t, ok := b.(*Term); ok {
			if s.branch(w, mkCmp(OUlt, t, mkBV(0x80, 8))) {
				it = s.wobj(p.ID)
				it.iterPos++
				s.setReg(fr, in, Tuple{true, uint64(pos), mkZExt(t, 32)})
				return
			}
		}
		s.unsupported("range over string with symbolic non-ASCII bytes")
	}
	kt := in.Type().(*types.Tuple).At(1).Type()
	vt := in.Type().(*types.Tuple).At(2).Type()
	for it.iterPos < len(it.iterKeys) {
		k := it.iterKeys[it.iterPos]
		it.iterPos++
		// look the key up again (it may have been deleted); keys were present, so compare concretely where possible
		o := s.obj(it.iterMap)
		for i := range o.entries {
			e := &o.entries[i]
			if e.Deleted {
				continue
			}
			if sameKey(e.K, k) {
				var kv, vv Value = k, e.V
				if _, ok := kt.(*types.Basic); ok && kt.(*types.Basic).Kind() == types.Invalid {
					kv = nil
				}
				_ = vt
				s.setReg(fr, in, Tuple{true, kv, vv})
				return
			}
		}
	}
	s.setReg(fr, in, Tuple{false, zeroOrNil(kt), zeroOrNil(vt)})
}

func zeroOrNil(t types.Type) Value {
	if b, ok := t.(*types.Basic); ok && b.Kind() == types.Invalid {
		return nil
	}
	return zeroValue(t)
}

// sameKey is identity of stored keys (keys in a map are pairwise distinct on this path).
func sameKey(a, b Value) bool {
	switch x := a.(type) {
	case *SymStr:
		y, ok := b.(*SymStr)
		return ok && x == y
	case Agg:
		y, ok := b.(Agg)
		if !ok || len(x) != len(y) {
			return false
		}
		for i := range x {
			if !sameKey(x[i], y[i]) {
				return false
			}
		}
		return true
	case Iface:
		y, ok := b.(Iface)
		return ok && x.T == y.T && sameKey(x.V, y.V)
	}
	return a == b
}

func decodeRune(s string) (rune, int) {
	for i, r := range s {
		_ = i
		n := len(string(r))
		if r == 0xFFFD {
			// could be an invalid byte (size 1) or a real U+FFFD (size 3)
			if len(s) >= 3 && s[0] == 0xEF && s[1] == 0xBF && s[2] == 0xBD {
				return r, 3
			}
			return r, 1
		}
		return r, n
	}
	return 0xFFFD, 0
}

// selectByGroups reads cands[idx] for a symbolic in-range idx when the candidates are concrete
// non-scalar values (e.g. strings): one branch per DISTINCT value instead of one per index.
func (s *State) selectByGroups(w *Worker, idx *Term, cands []Value) (Value, bool) {
	type group struct {
		val  Value
		idxs []int
	}
	var groups []*group
	for i, c := range cands {
		str, ok := c.(string)
		if !ok {
			return nil, false
		}
		found := false
		for _, g := range groups {
			if g.val.(string) == str {
				g.idxs = append(g.idxs, i)
				found = true
				break
			}
		}
		if !found {
			groups = append(groups, &group{val: str, idxs: []int{i}})
		}
	}
	if len(groups) > 64 {
		return nil, false
	}
	for gi, g := range groups {
		if gi == len(groups)-1 {
			return g.val, true
		}
		// membership as a disjunction of index ranges
		var member Value = false
		for k := 0; k < len(g.idxs); {
			j := k
			for j+1 < len(g.idxs) && g.idxs[j+1] == g.idxs[j]+1 {
				j++
			}
			var inRange *Term
			if idx.Sort == SInt {
				inRange = mkAndB(mkCmp(OILe, mkIntC(int64(g.idxs[k])), idx), mkCmp(OILe, idx, mkIntC(int64(g.idxs[j]))))
			} else {
				inRange = mkAndB(mkCmp(OUle, mkBV(uint64(g.idxs[k]), idx.Sort), idx), mkCmp(OUle, idx, mkBV(uint64(g.idxs[j]), idx.Sort)))
			}
			member = orValue(member, inRange)
			k = j + 1
		}
		if s.branch(w, member) {
			return g.val, true
		}
	}
	return nil, false
}
