package main

import (
	"fmt"
	"go/types"
	"math"
	"path/filepath"
	"reflect"
	"strconv"
	"strings"
	"unicode"
	"unicode/utf8"

	"golang.org/x/tools/go/ssa"
)

const logPath = "github.com/go-spring/log"

func (e *Engine) setupIntrinsics() {
	e.intrinsics = map[string]Intrinsic{}
	e.redirects = map[string]*ssa.Function{}
	e.visible = map[string]bool{}
	e.yields = map[string]bool{}
	e.enabledChecks = map[string]func(s *State, args []Value) bool{}
	e.initAllow = map[string]bool{}
	for _, p := range []string{"strings", "bytes", "unicode/utf8", "strconv", "sort", "slices", "maps", "math", "math/bits", "cmp",
		"path/filepath", "internal/filepathlite", "internal/stringslite", "internal/bytealg", "iter",
		"github.com/go-spring/stdlib/flatten", "github.com/go-spring/stdlib/ordered", "github.com/go-spring/stdlib/errutil",
		logPath, logPath + "/expr", "github.com/antlr4-go/antlr/v4"} {
		e.initAllow[p] = true
	}
	in := e.intrinsics
	for _, pfx := range []string{logPath + ".", logPath + "/expr."} {
		e.addHarnessAPI(pfx)
	}
	e.addNatives()
	e.addBytealg()
	e.addSyncAtomic()
	e.addEnvIntrinsics()
	e.addReflect()
	e.addRuntime()
	_ = in
}

func (c *callCtx) str(i int) string {
	s, ok := c.args[i].(string)
	if !ok {
		c.s.unsupported("%s: argument %d must be a concrete string (got %T)", c.fn, i, c.args[i])
	}
	return s
}

func (c *callCtx) int(i int) int {
	return int(int64(c.s.concretize(c.w, c.args[i], fmt.Sprintf("%s arg %d", c.fn.Name(), i))))
}

func (e *Engine) addHarnessAPI(p string) {
	in := e.intrinsics
	mkInt := func(kind string, w Sort) Intrinsic {
		return func(c *callCtx) Value {
			name := c.s.freshName(c.str(0))
			c.s.inputs = append(c.s.inputs, InputRec{Name: name, Kind: kind, Vars: []string{name}})
			v := mkVar(name, w)
			c.s.pinReplay(c.w, v)
			return v
		}
	}
	in[p+"vInt"] = mkInt("int", 64)
	in[p+"vInt64"] = mkInt("int64", 64)
	in[p+"vInt32"] = mkInt("int32", 32)
	in[p+"vInt16"] = mkInt("int16", 16)
	in[p+"vInt8"] = mkInt("int8", 8)
	in[p+"vUint64"] = mkInt("uint64", 64)
	in[p+"vUint"] = mkInt("uint", 64)
	in[p+"vUint32"] = mkInt("uint32", 32)
	in[p+"vUint16"] = mkInt("uint16", 16)
	in[p+"vUint8"] = mkInt("uint8", 8)
	in[p+"vByte"] = mkInt("uint8", 8)
	in[p+"vFloat64"] = mkInt("float64", 64) // bit pattern
	in[p+"vFloat32"] = mkInt("float32", 32)
	in[p+"vBool"] = func(c *callCtx) Value {
		name := c.s.freshName(c.str(0))
		c.s.inputs = append(c.s.inputs, InputRec{Name: name, Kind: "bool", Vars: []string{name}})
		bv := mkVar(name, SBool)
		c.s.pinReplay(c.w, bv)
		return bv
	}
	in[p+"vIntLIA"] = func(c *callCtx) Value {
		name := c.s.freshName(c.str(0))
		c.s.inputs = append(c.s.inputs, InputRec{Name: name, Kind: "lia", Vars: []string{name}})
		v := mkVar(name, SInt)
		c.s.pinReplay(c.w, v)
		lo, hi := int64(c.args[1].(uint64)), int64(c.args[2].(uint64))
		if !c.s.assume(c.w, mkAndB(mkCmp(OILe, mkIntC(lo), v), mkCmp(OILe, v, mkIntC(hi)))) {
			c.s.finish("INFEASIBLE", "")
		}
		return v
	}
	bytesOf := func(c *callCtx, kind string) []Value {
		name := c.s.freshName(c.str(0))
		n := c.int(1)
		vars := make([]string, n)
		out := make([]Value, n)
		for i := 0; i < n; i++ {
			vars[i] = fmt.Sprintf("%s[%d]", name, i)
			bv := mkVar(vars[i], 8)
			c.s.pinReplay(c.w, bv)
			out[i] = bv
		}
		c.s.inputs = append(c.s.inputs, InputRec{Name: name, Kind: kind, N: n, Vars: vars})
		return out
	}
	in[p+"vString"] = func(c *callCtx) Value {
		b := bytesOf(c, "string")
		if len(b) == 0 {
			return ""
		}
		return &SymStr{B: b}
	}
	in[p+"vBytes"] = func(c *callCtx) Value {
		b := bytesOf(c, "bytes")
		id := c.s.allocMem(b)
		return Slice{ID: id, Len: int32(len(b)), Cap: int32(len(b))}
	}
	in[p+"vChoose"] = func(c *callCtx) Value {
		name := c.str(0)
		n := c.int(1)
		if n <= 0 {
			c.s.unsupported("vChoose(%s, %d)", name, n)
		}
		k := c.s.choose(c.w, n)
		c.s.choices = append(c.s.choices, ChoiceRec{name, k})
		return uint64(k)
	}
	in[p+"vAssume"] = func(c *callCtx) Value {
		if !c.s.assume(c.w, c.args[0]) {
			c.s.finish("INFEASIBLE", "")
		}
		return nil
	}
	in[p+"vAssert"] = func(c *callCtx) Value {
		c.s.assert(c.w, c.args[0], c.str(1))
		return nil
	}
	in[p+"vReach"] = func(c *callCtx) Value {
		c.s.reached[c.str(0)] = true
		return nil
	}
	in[p+"vKnown"] = func(c *callCtx) Value {
		id := c.str(0)
		in := c.s.branch(c.w, c.args[1])
		if in {
			c.s.knownIn[id] = true
		}
		kf, ok := c.s.eng.known[id]
		return in && ok && kf.Status == "open"
	}
	in[p+"vYield"] = func(c *callCtx) Value { return nil }
	e.visible[p+"vYield"] = true
	e.yields[p+"vYield"] = true
	in[p+"vSingleProc"] = func(c *callCtx) Value {
		f := c.s.eng.pkgFunc(c.s.eng.logPkg, "vNop")
		if f == nil {
			c.s.unsupported("vNop missing")
		}
		return &Closure{Fn: f}
	}
	in[p+"vNoNative"] = func(c *callCtx) Value {
		c.s.noNative = true // this path depends on an engine-only model (e.g. the capacity override)
		return nil
	}
	in[p+"vTier"] = func(c *callCtx) Value { return uint64(c.s.opts.Tier) }
	in[p+"vSymbolic"] = func(c *callCtx) Value { return true }
	in[p+"vOpt"] = func(c *callCtx) Value {
		v := c.int(1)
		o := &c.s.opts
		switch c.str(0) {
		case "loop":
			o.LoopBound = v
		case "preempt":
			o.Preempt = v
		case "schedall":
			o.SchedAll = v != 0
		case "chancap":
			o.ChanCap = v
		case "maporder":
			o.MapOrder = v
		case "poolany":
			o.PoolAny = v != 0
		case "globalrace":
			o.GlobalRace = v != 0
		case "callrace":
			o.CallRace = v != 0
		case "exprtable":
			o.ExprTable = v != 0
		default:
			c.s.unsupported("vOpt(%q)", c.str(0))
		}
		return nil
	}
	in[p+"vAnd"] = func(c *callCtx) Value { return andValue(c.args[0], c.args[1]) }
	in[p+"vOr"] = func(c *callCtx) Value { return orValue(c.args[0], c.args[1]) }
	in[p+"vNot"] = func(c *callCtx) Value { return notValue(c.args[0]) }
	in[p+"vImplies"] = func(c *callCtx) Value { return orValue(notValue(c.args[0]), c.args[1]) }
	in[p+"vIte"] = func(c *callCtx) Value {
		switch b := c.args[0].(type) {
		case bool:
			if b {
				return c.args[1]
			}
			return c.args[2]
		case *Term:
			x, y := c.args[1], c.args[2]
			if xt, ok := x.(*Term); ok {
				return mkIte(b, xt, toTermLike(y, xt, true))
			}
			if yt, ok := y.(*Term); ok {
				return mkIte(b, toTermLike(x, yt, true), yt)
			}
			return mkIte(b, mkBV(x.(uint64), 64), mkBV(y.(uint64), 64))
		}
		return nil
	}
	in[p+"vObserve"] = func(c *callCtx) Value {
		v := c.args[1]
		if iv, ok := v.(Iface); ok {
			v = iv.V
			if sl, isSl := v.(Slice); isSl && iv.T != nil {
				// []byte: snapshot the content now
				if st, ok := iv.T.T.Underlying().(*types.Slice); ok {
					if b, ok := st.Elem().Underlying().(*types.Basic); ok && b.Kind() == types.Uint8 {
						if sl.ID == 0 {
							v = ""
						} else {
							v = mkStr(c.s.obj(sl.ID).slots[sl.Off : sl.Off+sl.Len])
						}
					}
				}
			}
			if u, ok := v.(uint64); ok && iv.T != nil {
				if w, signed, isInt := intInfo(iv.T.T); isInt && signed {
					v = NativeVal{sext(u, w)}
				}
			}
		}
		c.s.observ = append(c.s.observ, ObsRec{c.str(0), v})
		return nil
	}
	in[p+"vTrace"] = func(c *callCtx) Value {
		c.s.tracef("%s", c.str(0))
		return nil
	}
	in[p+"vConcretize"] = func(c *callCtx) Value {
		return c.s.concretize(c.w, c.args[0], "vConcretize")
	}
	in[p+"vSliceLen"] = func(c *callCtx) Value {
		return uint64(c.args[0].(Iface).V.(Slice).Len)
	}
	in[p+"vSliceSwap"] = func(c *callCtx) Value {
		iv := c.args[0].(Iface)
		sl := iv.V.(Slice)
		es := int32(slotsOf(iv.T.T.Underlying().(*types.Slice).Elem()))
		i, j := int32(c.int(1)), int32(c.int(2))
		o := c.s.wobj(sl.ID)
		for k := int32(0); k < es; k++ {
			a, b := sl.Off+i*es+k, sl.Off+j*es+k
			o.slots[a], o.slots[b] = o.slots[b], o.slots[a]
		}
		return nil
	}
}

// assert checks cond on the current path; a feasible violation is recorded with a model.
func (s *State) assert(w *Worker, cond Value, label string) {
	switch c := cond.(type) {
	case bool:
		if !c {
			s.eng.addViolation(s, "ASSERT", label, "assertion is false on this path")
		}
		return
	case *Term:
		if c.IsConst() {
			if c.Imm == 0 {
				s.eng.addViolation(s, "ASSERT", label, "assertion is false on this path")
			}
			return
		}
		if v, ok := s.known[c]; ok && v {
			return
		}
		neg := mkNot(c)
		res, m := s.checkSat(w, neg)
		switch res {
		case ResSat:
			saved := s.model
			s.model = m
			s.eng.addViolation(s, "ASSERT", label, "assertion can fail: "+c.String())
			s.model = saved
			if !s.assume(w, c) {
				s.finish("INFEASIBLE", "")
			}
		case ResUnsat:
			s.setKnown(c, true)
		default:
			s.pcUnk = true
			s.eng.noteInconclusive("solver unknown on assertion " + label)
		}
	}
}

func (e *Engine) noteInconclusive(msg string) {
	e.mu.Lock()
	if len(e.results.Inconcl) < 20 {
		e.results.Inconcl = append(e.results.Inconcl, msg)
	}
	e.mu.Unlock()
}

// ---------------------------------------------------------------------------
// native bridge: run a pure standard-library function natively when all arguments are concrete

func (s *State) toNative(v Value, t reflect.Type) (reflect.Value, bool) {
	switch t.Kind() {
	case reflect.String:
		str, ok := v.(string)
		if !ok {
			return reflect.Value{}, false
		}
		return reflect.ValueOf(str).Convert(t), true
	case reflect.Int, reflect.Int8, reflect.Int16, reflect.Int32, reflect.Int64:
		u, ok := v.(uint64)
		if !ok {
			return reflect.Value{}, false
		}
		r := reflect.New(t).Elem()
		r.SetInt(sext(u, Sort(t.Bits())))
		return r, true
	case reflect.Uint, reflect.Uint8, reflect.Uint16, reflect.Uint32, reflect.Uint64:
		u, ok := v.(uint64)
		if !ok {
			return reflect.Value{}, false
		}
		r := reflect.New(t).Elem()
		r.SetUint(u)
		return r, true
	case reflect.Bool:
		b, ok := v.(bool)
		if !ok {
			return reflect.Value{}, false
		}
		return reflect.ValueOf(b), true
	case reflect.Float64, reflect.Float32:
		f, ok := v.(float64)
		if !ok {
			return reflect.Value{}, false
		}
		return reflect.ValueOf(f).Convert(t), true
	case reflect.Slice:
		sl, ok := v.(Slice)
		if !ok {
			return reflect.Value{}, false
		}
		out := reflect.MakeSlice(t, int(sl.Len), int(sl.Len))
		if sl.Len > 0 {
			o := s.obj(sl.ID)
			for i := 0; i < int(sl.Len); i++ {
				ev, ok := s.toNative(o.slots[int(sl.Off)+i], t.Elem())
				if !ok {
					return reflect.Value{}, false
				}
				out.Index(i).Set(ev)
			}
		}
		return out, true
	}
	return reflect.Value{}, false
}

func (s *State) fromNative(v reflect.Value) Value {
	switch v.Kind() {
	case reflect.String:
		return v.String()
	case reflect.Int, reflect.Int8, reflect.Int16, reflect.Int32, reflect.Int64:
		return uint64(v.Int()) & mask(Sort(v.Type().Bits()))
	case reflect.Uint, reflect.Uint8, reflect.Uint16, reflect.Uint32, reflect.Uint64:
		return v.Uint()
	case reflect.Bool:
		return v.Bool()
	case reflect.Float64, reflect.Float32:
		return v.Float()
	case reflect.Slice:
		n := v.Len()
		if v.IsNil() {
			return Slice{}
		}
		slots := make([]Value, n)
		for i := 0; i < n; i++ {
			slots[i] = s.fromNative(v.Index(i))
		}
		id := s.allocMem(slots)
		return Slice{ID: id, Len: int32(n), Cap: int32(n)}
	case reflect.Interface:
		if v.IsNil() {
			return Iface{}
		}
		if err, ok := v.Interface().(error); ok {
			return s.newError(err.Error())
		}
	}
	s.unsupported("fromNative %s", v.Type())
	return nil
}

func nativeFn(f interface{}) Intrinsic {
	fv := reflect.ValueOf(f)
	ft := fv.Type()
	return func(c *callCtx) Value {
		args := make([]reflect.Value, len(c.args))
		if len(c.args) != ft.NumIn() {
			c.s.unsupported("native bridge arity mismatch for %s", c.fn)
		}
		for i, a := range c.args {
			nv, ok := c.s.toNative(a, ft.In(i))
			if !ok {
				return c.runBody()
			}
			args[i] = nv
		}
		var outs []reflect.Value
		if ft.IsVariadic() {
			outs = fv.CallSlice(args)
		} else {
			outs = fv.Call(args)
		}
		switch len(outs) {
		case 0:
			return nil
		case 1:
			return c.s.fromNative(outs[0])
		}
		tu := make(Tuple, len(outs))
		for i, o := range outs {
			tu[i] = c.s.fromNative(o)
		}
		return tu
	}
}

func (e *Engine) addNatives() {
	in := e.intrinsics
	nat := map[string]interface{}{
		"strings.Split": strings.Split, "strings.SplitN": strings.SplitN, "strings.TrimSpace": strings.TrimSpace,
		"strings.ToUpper": strings.ToUpper, "strings.ToLower": strings.ToLower, "strings.HasPrefix": strings.HasPrefix,
		"strings.HasSuffix": strings.HasSuffix, "strings.Index": strings.Index, "strings.IndexByte": strings.IndexByte,
		"strings.LastIndex": strings.LastIndex, "strings.LastIndexByte": strings.LastIndexByte, "strings.Contains": strings.Contains,
		"strings.TrimPrefix": strings.TrimPrefix, "strings.TrimSuffix": strings.TrimSuffix, "strings.Trim": strings.Trim,
		"strings.TrimLeft": strings.TrimLeft, "strings.TrimRight": strings.TrimRight, "strings.Join": strings.Join,
		"strings.Repeat": strings.Repeat, "strings.ReplaceAll": strings.ReplaceAll, "strings.Fields": strings.Fields,
		"strings.EqualFold": strings.EqualFold, "strings.Count": strings.Count, "strings.CutSuffix": strings.CutSuffix,
		"strings.CutPrefix": strings.CutPrefix, "strings.Cut": strings.Cut, "strings.ContainsRune": strings.ContainsRune,
		"strings.ContainsAny": strings.ContainsAny, "strings.IndexAny": strings.IndexAny, "strings.Title": strings.Title,
		"strconv.Itoa": strconv.Itoa, "strconv.FormatInt": strconv.FormatInt, "strconv.FormatUint": strconv.FormatUint,
		"strconv.FormatBool": strconv.FormatBool, "strconv.ParseInt": strconv.ParseInt,
		"strconv.ParseUint": strconv.ParseUint, "strconv.ParseBool": strconv.ParseBool, "strconv.ParseFloat": strconv.ParseFloat,
		"strconv.Atoi": strconv.Atoi, "strconv.Quote": strconv.Quote, "strconv.Unquote": strconv.Unquote,
		"path/filepath.Join": filepath.Join, "path/filepath.Clean": filepath.Clean, "path/filepath.Base": filepath.Base,
		"path/filepath.Dir": filepath.Dir,
		"unicode/utf8.RuneLen": utf8.RuneLen, "unicode/utf8.ValidString": utf8.ValidString,
		"unicode/utf8.DecodeRuneInString": utf8.DecodeRuneInString, "unicode/utf8.RuneCountInString": utf8.RuneCountInString,
		"unicode/utf8.ValidRune": utf8.ValidRune, "unicode/utf8.DecodeLastRuneInString": utf8.DecodeLastRuneInString,
		"unicode.IsDigit": unicode.IsDigit, "unicode.IsSpace": unicode.IsSpace, "unicode.IsUpper": unicode.IsUpper,
		"unicode.IsLower": unicode.IsLower, "unicode.IsLetter": unicode.IsLetter, "unicode.ToUpper": unicode.ToUpper,
		"unicode.ToLower": unicode.ToLower, "unicode.IsPrint": unicode.IsPrint,
		"math.IsNaN_concrete": math.IsNaN,
		"math.Inf":            math.Inf, "math.NaN": math.NaN,
	}
	for k, f := range nat {
		in[k] = nativeFn(f)
	}
	joinNative := in["path/filepath.Join"]
	in["path/filepath.Join"] = func(c *callCtx) Value {
		sl := c.args[0].(Slice)
		var elems []Value
		sym := false
		if sl.Len > 0 {
			elems = c.s.obj(sl.ID).slots[sl.Off : sl.Off+sl.Len]
		}
		for _, e := range elems {
			if _, ok := e.(*SymStr); ok {
				sym = true
			}
		}
		if !sym {
			return joinNative(c)
		}
		// symbolic elements are opaque plain names: assumed to contain no separator
		var out Value = ""
		for i, e := range elems {
			if ss, ok := e.(*SymStr); ok {
				for _, b := range ss.B {
					if t, ok := b.(*Term); ok {
						if !c.s.assume(c.w, mkNot(mkEq(t, mkBV('/', 8)))) {
							c.s.finish("INFEASIBLE", "")
						}
					}
				}
			} else {
				e = filepath.Clean(e.(string))
			}
			if i > 0 {
				out = strConcat(out, "/")
			}
			out = strConcat(out, e)
		}
		return out
	}
	in["strconv.FormatFloat"] = func(c *callCtx) Value {
		f := c.floatArg(0)
		return strconv.FormatFloat(f, byte(c.int(1)), c.int(2), c.int(3))
	}
	in["math.Float64bits"] = func(c *callCtx) Value {
		switch x := c.args[0].(type) {
		case float64:
			return math.Float64bits(x)
		case *Term:
			return x
		}
		return nil
	}
	in["math.Float64frombits"] = func(c *callCtx) Value {
		switch x := c.args[0].(type) {
		case uint64:
			return math.Float64frombits(x)
		case *Term:
			return x
		}
		return nil
	}
	in["math.Float32bits"] = func(c *callCtx) Value {
		switch x := c.args[0].(type) {
		case float64:
			return uint64(math.Float32bits(float32(x)))
		case *Term:
			return x
		}
		return nil
	}
	in["math.Float32frombits"] = func(c *callCtx) Value {
		switch x := c.args[0].(type) {
		case uint64:
			return float64(math.Float32frombits(uint32(x)))
		case *Term:
			return x
		}
		return nil
	}
	for name, f := range map[string]func(float64) float64{"math.Trunc": math.Trunc, "math.Abs": math.Abs, "math.Floor": math.Floor, "math.Ceil": math.Ceil} {
		f := f
		in[name] = func(c *callCtx) Value { return f(c.floatArg(0)) }
	}
	in["math.IsNaN"] = func(c *callCtx) Value {
		switch x := c.args[0].(type) {
		case float64:
			return math.IsNaN(x)
		case *Term:
			return mkUn(OFpIsNaN, SBool, x)
		}
		return nil
	}
	in["math.IsInf"] = func(c *callCtx) Value {
		sign := c.int(1)
		switch x := c.args[0].(type) {
		case float64:
			return math.IsInf(x, sign)
		case *Term:
			inf := mkUn(OFpIsInf, SBool, x)
			neg := mkEq(mkExtract(x, 63, 1), mkBV(1, 1))
			switch {
			case sign > 0:
				return mkAndB(inf, mkNot(neg))
			case sign < 0:
				return mkAndB(inf, neg)
			}
			return inf
		}
		return nil
	}
	// fmt / errors: opaque strings
	sprintf := func(c *callCtx) Value {
		format := c.str(0)
		return c.s.nativeSprintf(format, c.args[1])
	}
	in["fmt.Sprintf"] = sprintf
	in["fmt.Errorf"] = func(c *callCtx) Value {
		return c.s.newError(c.s.nativeSprintf(c.str(0), c.args[1]))
	}
	in["fmt.Sprint"] = func(c *callCtx) Value { return c.s.nativeSprintf("%v", c.args[0]) }
	in["fmt.Fprintln"] = func(c *callCtx) Value { return Tuple{uint64(0), Iface{}} }
	in["fmt.Fprintf"] = func(c *callCtx) Value { return Tuple{uint64(0), Iface{}} }
	in["fmt.Println"] = func(c *callCtx) Value { return Tuple{uint64(0), Iface{}} }
	in["fmt.Printf"] = func(c *callCtx) Value { return Tuple{uint64(0), Iface{}} }
	in["fmt.Print"] = func(c *callCtx) Value { return Tuple{uint64(0), Iface{}} }
	in["github.com/go-spring/stdlib/errutil.Explain"] = func(c *callCtx) Value {
		msg := c.s.nativeSprintf(c.str(1), c.args[2])
		if iv, ok := c.args[0].(Iface); ok && iv.T != nil {
			msg = strConcat(strConcat(msg, ": "), c.s.errorText(iv))
		}
		return c.s.newError(msg)
	}
	in["github.com/go-spring/stdlib/errutil.Stack"] = in["github.com/go-spring/stdlib/errutil.Explain"]
	in["runtime/debug.Stack"] = func(c *callCtx) Value {
		b := strBytes("<stack>")
		id := c.s.allocMem(b)
		return Slice{ID: id, Len: int32(len(b)), Cap: int32(len(b))}
	}
	in["encoding/json.Marshal"] = func(c *callCtx) Value {
		iv := c.args[0].(Iface)
		if iv.T != nil {
			if m := c.s.eng.jsonMarshalerMethod(iv.T); m != nil {
				// a json.Marshaler: call its (interpreted) MarshalJSON; on error wrap it as encoding/json does;
				// returned bytes are taken as they are (assumed valid compact JSON)
				tname := shortTypeString(iv.T.T)
				nf := c.s.newFrame(m, []Value{iv.V}, nil, c.dest)
				nf.callSite = c.site
				nf.post = func(s *State, rv Value) Value {
					tu := rv.(Tuple)
					if ev, ok := tu[1].(Iface); ok && ev.T != nil {
						msg := strConcat("json: error calling MarshalJSON for type "+tname+": ", s.errorText(ev))
						return Tuple{Slice{}, s.newError(msg)}
					}
					return tu
				}
				c.t.frames = append(c.t.frames, nf)
				c.tail = true
				return nil
			}
		}
		return c.s.jsonMarshal(c.w, iv)
	}
}

func (c *callCtx) floatArg(i int) float64 {
	switch x := c.args[i].(type) {
	case float64:
		return x
	case *Term:
		return c.s.floatClassSplit(c.w, x)
	}
	c.s.unsupported("float arg %T", c.args[i])
	return 0
}

// floatClassSplit path-splits a symbolic float64 (bit pattern) into NaN / +Inf / -Inf / finite;
// a finite value is concretised to ONE representative (the model's) without exploring the
// other finite values (stated under-approximation: decimal formatting is strconv's).
func (s *State) floatClassSplit(w *Worker, x *Term) float64 {
	if x.Sort == 32 {
		x = mkUn(OF32to64, 64, x)
	}
	if s.branch(w, mkUn(OFpIsNaN, SBool, x)) {
		return math.NaN()
	}
	if s.branch(w, mkUn(OFpIsInf, SBool, x)) {
		if s.branch(w, mkEq(mkExtract(x, 63, 1), mkBV(1, 1))) {
			return math.Inf(-1)
		}
		return math.Inf(1)
	}
	mv, ok := s.evalModel(x)
	if !ok || fpIsNaN(mv) || fpIsInf(mv) {
		res, m := s.checkSat(w, tTrue)
		if res != ResSat {
			s.abort("UNKNOWN", "no model for finite float")
		}
		s.model = m
		mv, _ = s.evalModel(x)
	}
	if !s.assume(w, mkEq(x, mkBV(mv, 64))) {
		s.abort("UNKNOWN", "finite float representative infeasible")
	}
	return math.Float64frombits(mv)
}

// errorText returns the message of an error value where the engine knows the representation.
func (s *State) errorText(iv Iface) Value {
	if iv.T == s.eng.errStringPtrType {
		if p, ok := iv.V.(Ptr); ok && p.ID != 0 {
			return s.obj(p.ID).slots[p.Off]
		}
	}
	return "<" + iv.T.Str + ">"
}

// nativeSprintf formats with concrete arguments; symbolic strings are spliced for %s/%q/%v verbs.
func (s *State) nativeSprintf(format string, argsV Value) Value {
	sl, _ := argsV.(Slice)
	var args []Value
	if sl.ID != 0 {
		o := s.obj(sl.ID)
		args = o.slots[sl.Off : sl.Off+sl.Len]
	}
	nat := make([]interface{}, len(args))
	type hole struct {
		marker string
		val    Value
		quote  bool
	}
	var holes []hole
	for i, a := range args {
		iv, ok := a.(Iface)
		if !ok || iv.T == nil {
			nat[i] = nil
			continue
		}
		nat[i] = s.nativeOf(iv, func(v Value) string {
			m := fmt.Sprintf("\x00H%d\x00", len(holes))
			holes = append(holes, hole{marker: m, val: v})
			return m
		})
	}
	out := fmt.Sprintf(format, nat...)
	if len(holes) == 0 {
		return out
	}
	// splice symbolic strings
	var res Value = ""
	rest := out
	for {
		best, bi := -1, -1
		for i, h := range holes {
			if j := strings.Index(rest, h.marker); j >= 0 && (best < 0 || j < best) {
				best, bi = j, i
			}
		}
		if best < 0 {
			// markers may have been quoted by %q: give up on exactness
			res = strConcat(res, rest)
			break
		}
		res = strConcat(res, rest[:best])
		res = strConcat(res, holes[bi].val)
		rest = rest[best+len(holes[bi].marker):]
	}
	return res
}

// nativeOf converts an interface value to a native value for fmt.
func (s *State) nativeOf(iv Iface, sym func(Value) string) interface{} {
	switch v := iv.V.(type) {
	case string:
		return v
	case *SymStr:
		return sym(v)
	case bool:
		return v
	case float64:
		return v
	case uint64:
		if w, signed, ok := intInfo(iv.T.T); ok {
			if signed {
				return sext(v, w)
			}
			return v
		}
		return v
	case *Term:
		return "<sym>"
	case Ptr:
		if iv.T == s.eng.errStringPtrType && v.ID != 0 {
			m := s.obj(v.ID).slots[v.Off]
			if ms, ok := m.(string); ok {
				return fmt.Errorf("%s", ms)
			}
			return sym(m)
		}
		return fmt.Sprintf("<%s>", iv.T.Str)
	case Agg:
		// Level{code,name} and similar small structs: render slots
		parts := make([]string, len(v))
		for i, e := range v {
			parts[i] = describe(e)
		}
		return "{" + strings.Join(parts, " ") + "}"
	}
	return fmt.Sprintf("<%s>", iv.T.Str)
}
