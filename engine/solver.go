package main

// One persistent solver process per worker (z3 -in by default). Every query is
// (reset) + declarations + assertions + (check-sat) [+ (get-value ...)].
// Any "(error" line makes the query inconclusive (ResUnknown).

import (
	"bufio"
	"fmt"
	"io"
	"os"
	"os/exec"
	"sort"
	"strconv"
	"strings"
	"sync"
	"sync/atomic"
	"time"
)

const (
	ResSat = iota
	ResUnsat
	ResUnknown
)

type Solver struct {
	name   string
	args   []string
	cmd    *exec.Cmd
	stdin  io.WriteCloser
	stdout *bufio.Reader
	logf   *os.File
}

type solverStats struct {
	queries, sat, unsat, unknown, cacheHits, modelHits, synHits int64
	nanos                                                       int64
}

var gstats solverStats

var solverTimeoutMs = 20000

func newSolver(kind string) (*Solver, error) {
	s := &Solver{name: kind}
	switch kind {
	case "z3":
		s.args = []string{"z3", "-in"}
	case "z3-new":
		s.args = []string{"z3-new", "-in"}
	case "cvc5":
		s.args = []string{"cvc5", "--incremental", "--lang=smt2", "--produce-models", fmt.Sprintf("--tlimit-per=%d", solverTimeoutMs)}
	default:
		return nil, fmt.Errorf("unknown solver %q", kind)
	}
	if err := s.start(); err != nil {
		return nil, err
	}
	return s, nil
}

func (s *Solver) start() error {
	s.cmd = exec.Command(s.args[0], s.args[1:]...)
	in, err := s.cmd.StdinPipe()
	if err != nil {
		return err
	}
	out, err := s.cmd.StdoutPipe()
	if err != nil {
		return err
	}
	s.cmd.Stderr = nil
	if err := s.cmd.Start(); err != nil {
		return err
	}
	s.stdin = in
	s.stdout = bufio.NewReaderSize(out, 1<<16)
	return nil
}

func (s *Solver) Close() {
	if s.cmd != nil {
		s.stdin.Close()
		s.cmd.Process.Kill()
		s.cmd.Wait()
		s.cmd = nil
	}
}

func (s *Solver) restart() {
	s.Close()
	s.start()
}

// readSexp reads one complete s-expression or atom line from the solver.
func (s *Solver) readSexp() (string, error) {
	var sb strings.Builder
	depth := 0
	started := false
	inBar := false
	for {
		line, err := s.stdout.ReadString('\n')
		if err != nil {
			return sb.String(), err
		}
		if !started && strings.TrimSpace(line) == "" {
			continue
		}
		started = true
		sb.WriteString(line)
		for i := 0; i < len(line); i++ {
			c := line[i]
			if c == '|' {
				inBar = !inBar
			}
			if inBar {
				continue
			}
			if c == '(' {
				depth++
			} else if c == ')' {
				depth--
			}
		}
		if depth <= 0 {
			return strings.TrimSpace(sb.String()), nil
		}
	}
}

// Check decides satisfiability of the conjunction; on sat it returns a model of
// all variables occurring in the conjunction.
func (s *Solver) Check(conj []*Term) (int, Model) {
	t0 := time.Now()
	defer func() { atomic.AddInt64(&gstats.nanos, int64(time.Since(t0))) }()
	atomic.AddInt64(&gstats.queries, 1)
	var sb strings.Builder
	sb.WriteString("(reset)\n")
	if s.name != "cvc5" {
		fmt.Fprintf(&sb, "(set-option :timeout %d)\n", solverTimeoutMs)
	} else {
		sb.WriteString("(set-logic ALL)\n")
	}
	p := newPrinter(&sb)
	for _, c := range conj {
		p.define(c)
	}
	for _, c := range conj {
		sb.WriteString("(assert " + p.ref(c) + ")\n")
	}
	sb.WriteString("(check-sat)\n")
	if s.logf != nil {
		s.logf.WriteString(sb.String())
	}
	if _, err := io.WriteString(s.stdin, sb.String()); err != nil {
		s.restart()
		atomic.AddInt64(&gstats.unknown, 1)
		return ResUnknown, nil
	}
	resp, err := s.readSexp()
	if err != nil {
		s.restart()
		atomic.AddInt64(&gstats.unknown, 1)
		return ResUnknown, nil
	}
	switch {
	case resp == "unsat":
		atomic.AddInt64(&gstats.unsat, 1)
		return ResUnsat, nil
	case resp == "sat":
		atomic.AddInt64(&gstats.sat, 1)
		m := Model{}
		if len(p.varList) == 0 {
			return ResSat, m
		}
		var q strings.Builder
		q.WriteString("(get-value (")
		for _, v := range p.varList {
			q.WriteString(smtName(v.Name))
			q.WriteString(" ")
		}
		q.WriteString("))\n")
		io.WriteString(s.stdin, q.String())
		out, err := s.readSexp()
		if err != nil || strings.HasPrefix(out, "(error") {
			s.restart()
			atomic.AddInt64(&gstats.unknown, 1)
			return ResUnknown, nil
		}
		if !parseModel(out, p.varList, m) {
			fmt.Fprintf(os.Stderr, "solver: cannot parse model: %s\n", out)
			atomic.AddInt64(&gstats.unknown, 1)
			return ResUnknown, nil
		}
		return ResSat, m
	default:
		// unknown, timeout or (error ...): inconclusive. Restart to be safe.
		if strings.HasPrefix(resp, "(error") {
			fmt.Fprintf(os.Stderr, "solver error: %s\n", resp)
			s.restart()
		}
		atomic.AddInt64(&gstats.unknown, 1)
		return ResUnknown, nil
	}
}

// CheckOnly decides satisfiability without asking for a model (used for cross-solver validation).
func (s *Solver) CheckOnly(conj []*Term) int {
	var sb strings.Builder
	sb.WriteString("(reset)\n")
	if s.name != "cvc5" {
		fmt.Fprintf(&sb, "(set-option :timeout %d)\n", solverTimeoutMs)
	} else {
		sb.WriteString("(set-logic ALL)\n")
	}
	p := newPrinter(&sb)
	for _, c := range conj {
		p.define(c)
	}
	for _, c := range conj {
		sb.WriteString("(assert " + p.ref(c) + ")\n")
	}
	sb.WriteString("(check-sat)\n")
	if _, err := io.WriteString(s.stdin, sb.String()); err != nil {
		s.restart()
		return ResUnknown
	}
	resp, err := s.readSexp()
	if err != nil {
		s.restart()
		return ResUnknown
	}
	switch resp {
	case "sat":
		return ResSat
	case "unsat":
		return ResUnsat
	}
	if strings.HasPrefix(resp, "(error") {
		fmt.Fprintf(os.Stderr, "%s error: %s\n", s.name, resp)
		s.restart()
	}
	return ResUnknown
}

// parseModel parses "((|a| #x01) (|b| true) (|c| (- 3)))".
func parseModel(out string, vars []*Term, m Model) bool {
	byName := map[string]*Term{}
	for _, v := range vars {
		byName[v.Name] = v
	}
	i := 0
	n := len(out)
	skip := func() {
		for i < n && (out[i] == ' ' || out[i] == '\n' || out[i] == '\t' || out[i] == '\r') {
			i++
		}
	}
	skip()
	if i >= n || out[i] != '(' {
		return false
	}
	i++
	for {
		skip()
		if i >= n {
			return false
		}
		if out[i] == ')' {
			return true
		}
		if out[i] != '(' {
			return false
		}
		i++
		skip()
		var name string
		if out[i] == '|' {
			j := strings.IndexByte(out[i+1:], '|')
			if j < 0 {
				return false
			}
			name = out[i+1 : i+1+j]
			i += j + 2
		} else {
			j := i
			for j < n && out[j] != ' ' && out[j] != ')' {
				j++
			}
			name = out[i:j]
			i = j
		}
		skip()
		// value: atom or parenthesised
		start := i
		if out[i] == '(' {
			d := 0
			for i < n {
				if out[i] == '(' {
					d++
				} else if out[i] == ')' {
					d--
					if d == 0 {
						i++
						break
					}
				}
				i++
			}
		} else {
			for i < n && out[i] != ')' && out[i] != ' ' {
				i++
			}
		}
		val := strings.TrimSpace(out[start:i])
		skip()
		if i >= n || out[i] != ')' {
			return false
		}
		i++
		v, ok := byName[name]
		if !ok {
			continue
		}
		u, ok := parseValue(val, v.Sort)
		if !ok {
			return false
		}
		m[name] = u
	}
}

func parseValue(val string, s Sort) (uint64, bool) {
	switch {
	case val == "true":
		return 1, true
	case val == "false":
		return 0, true
	case strings.HasPrefix(val, "#x"):
		u, err := strconv.ParseUint(val[2:], 16, 64)
		return u, err == nil
	case strings.HasPrefix(val, "#b"):
		u, err := strconv.ParseUint(val[2:], 2, 64)
		return u, err == nil
	case strings.HasPrefix(val, "(_ bv"):
		f := strings.Fields(val[5:])
		u, err := strconv.ParseUint(f[0], 10, 64)
		return u, err == nil
	case strings.HasPrefix(val, "(-"):
		inner := strings.TrimSpace(strings.TrimSuffix(strings.TrimPrefix(val, "(-"), ")"))
		i, err := strconv.ParseInt(inner, 10, 64)
		return uint64(-i), err == nil
	default:
		i, err := strconv.ParseInt(val, 10, 64)
		return uint64(i), err == nil
	}
}

// ---------------------------------------------------------------------------
// global query cache: key = sorted conjunct ids

type cacheEntry struct {
	res   int
	model Model
}

var (
	qcacheMu sync.RWMutex
	qcache   = map[string]cacheEntry{}
)

func queryKey(conj []*Term) string {
	ids := make([]uint32, len(conj))
	for i, c := range conj {
		ids[i] = c.ID
	}
	sort.Slice(ids, func(i, j int) bool { return ids[i] < ids[j] })
	var sb strings.Builder
	for _, id := range ids {
		sb.WriteString(strconv.FormatUint(uint64(id), 36))
		sb.WriteByte(',')
	}
	return sb.String()
}

func (s *Solver) CheckCached(conj []*Term) (int, Model) {
	r, m, _ := s.CheckCached2(conj)
	return r, m
}

// CheckCached2 also reports whether the answer came from the cache.
func (s *Solver) CheckCached2(conj []*Term) (int, Model, bool) {
	k := queryKey(conj)
	qcacheMu.RLock()
	e, ok := qcache[k]
	qcacheMu.RUnlock()
	if ok {
		atomic.AddInt64(&gstats.cacheHits, 1)
		return e.res, e.model, true
	}
	res, m := s.Check(conj)
	if res != ResUnknown {
		qcacheMu.Lock()
		qcache[k] = cacheEntry{res, m}
		qcacheMu.Unlock()
	}
	return res, m, false
}
