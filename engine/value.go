package main

// Value model of the symbolic interpreter. All values are immutable; mutable
// things live in heap objects addressed by (object id, slot offset).
//
//   bool            bool | *Term(Bool)
//   integers        uint64 (raw bits, zero-extended, masked to the type's width) | *Term(BV w | Int)
//   floats          float64 | *Term(BV64/BV32 bit pattern)
//   string          string | *SymStr
//   pointer         Ptr | StrPtr (pointer into string data)
//   slice           Slice
//   struct, array   Agg (flat slots)
//   interface       Iface
//   map, chan       MapRef, ChanRef
//   func            *Closure | *ssa.Builtin
//   tuple           Tuple

import (
	"fmt"
	"go/types"
	"strings"
	"sync"

	"golang.org/x/tools/go/ssa"
	"golang.org/x/tools/go/types/typeutil"
)

type Value = interface{}

type Ptr struct {
	ID  int32
	Off int32
}

type Slice struct {
	ID            int32
	Off, Len, Cap int32 // Off in slots; Len/Cap in elements
}

type Agg []Value
type Tuple []Value

type Iface struct {
	T *RType
	V Value
}

type MapRef struct{ ID int32 }
type ChanRef struct{ ID int32 }

type Closure struct {
	Fn  *ssa.Function
	Env []Value
}

type SymStr struct{ B []Value }

// StrPtr is a *byte pointing into the data of a string (unsafe.StringData).
type StrPtr struct {
	S   Value
	Off int
}

// NativeVal wraps an opaque native Go value (used by a few intrinsics).
type NativeVal struct{ V interface{} }

type RType struct {
	T   types.Type
	ID  int
	Str string
}

var (
	rtMu   sync.Mutex
	rtMap  typeutil.Map
	rtList []*RType
)

func rtypeOf(t types.Type) *RType {
	rtMu.Lock()
	defer rtMu.Unlock()
	if v := rtMap.At(t); v != nil {
		return v.(*RType)
	}
	r := &RType{T: t, ID: len(rtList) + 1, Str: types.TypeString(t, nil)}
	rtMap.Set(t, r)
	rtList = append(rtList, r)
	return r
}

func (r *RType) String() string { return r.Str }

// ---------------------------------------------------------------------------
// layout

var (
	slotMu    sync.Mutex
	slotCache typeutil.Map
)

func isAggType(t types.Type) bool {
	switch t.Underlying().(type) {
	case *types.Struct, *types.Array:
		return true
	}
	return false
}

func slotsOf(t types.Type) int {
	switch u := t.Underlying().(type) {
	case *types.Struct:
		slotMu.Lock()
		if v := slotCache.At(t); v != nil {
			slotMu.Unlock()
			return v.(int)
		}
		slotMu.Unlock()
		n := 0
		for i := 0; i < u.NumFields(); i++ {
			n += slotsOf(u.Field(i).Type())
		}
		slotMu.Lock()
		slotCache.Set(t, n)
		slotMu.Unlock()
		return n
	case *types.Array:
		return int(u.Len()) * slotsOf(u.Elem())
	case *types.Tuple:
		panic("slotsOf tuple")
	}
	return 1
}

func fieldOffset(st *types.Struct, idx int) int {
	off := 0
	for i := 0; i < idx; i++ {
		off += slotsOf(st.Field(i).Type())
	}
	return off
}

func appendZero(dst []Value, t types.Type) []Value {
	switch u := t.Underlying().(type) {
	case *types.Struct:
		for i := 0; i < u.NumFields(); i++ {
			dst = appendZero(dst, u.Field(i).Type())
		}
		return dst
	case *types.Array:
		n := int(u.Len())
		for i := 0; i < n; i++ {
			dst = appendZero(dst, u.Elem())
		}
		return dst
	}
	return append(dst, zeroScalar(t))
}

func zeroScalar(t types.Type) Value {
	switch u := t.Underlying().(type) {
	case *types.Basic:
		switch {
		case u.Info()&types.IsBoolean != 0:
			return false
		case u.Info()&types.IsInteger != 0:
			return uint64(0)
		case u.Info()&types.IsFloat != 0:
			return float64(0)
		case u.Info()&types.IsString != 0:
			return ""
		case u.Kind() == types.UnsafePointer:
			return Ptr{}
		case u.Kind() == types.UntypedNil:
			return Ptr{}
		}
		panic("zeroScalar: basic " + u.String())
	case *types.Pointer:
		return Ptr{}
	case *types.Slice:
		return Slice{}
	case *types.Map:
		return MapRef{}
	case *types.Chan:
		return ChanRef{}
	case *types.Signature:
		return (*Closure)(nil)
	case *types.Interface:
		return Iface{}
	case *types.TypeParam:
		panic("zeroScalar: type parameter")
	}
	panic("zeroScalar: " + t.String())
}

func zeroValue(t types.Type) Value {
	if isAggType(t) {
		return Agg(appendZero(make([]Value, 0, slotsOf(t)), t))
	}
	if tt, ok := t.(*types.Tuple); ok {
		tu := make(Tuple, tt.Len())
		for i := range tu {
			tu[i] = zeroValue(tt.At(i).Type())
		}
		return tu
	}
	return zeroScalar(t)
}

// intWidth returns the bit width and signedness of an integer type (after Underlying()).
func intInfo(t types.Type) (w Sort, signed bool, ok bool) {
	b, isb := t.Underlying().(*types.Basic)
	if !isb {
		return 0, false, false
	}
	switch b.Kind() {
	case types.Int8:
		return 8, true, true
	case types.Int16:
		return 16, true, true
	case types.Int32, types.UntypedRune:
		return 32, true, true
	case types.Int64, types.Int, types.UntypedInt:
		return 64, true, true
	case types.Uint8:
		return 8, false, true
	case types.Uint16:
		return 16, false, true
	case types.Uint32:
		return 32, false, true
	case types.Uint64, types.Uint, types.Uintptr:
		return 64, false, true
	}
	return 0, false, false
}

func isFloatType(t types.Type) (w Sort, ok bool) {
	b, isb := t.Underlying().(*types.Basic)
	if !isb {
		return 0, false
	}
	switch b.Kind() {
	case types.Float32:
		return 32, true
	case types.Float64, types.UntypedFloat:
		return 64, true
	}
	return 0, false
}

func isStringType(t types.Type) bool {
	b, ok := t.Underlying().(*types.Basic)
	return ok && b.Info()&types.IsString != 0
}

func isBoolType(t types.Type) bool {
	b, ok := t.Underlying().(*types.Basic)
	return ok && b.Info()&types.IsBoolean != 0
}

// ---------------------------------------------------------------------------
// strings

func strBytes(v Value) []Value {
	switch s := v.(type) {
	case string:
		out := make([]Value, len(s))
		for i := 0; i < len(s); i++ {
			out[i] = uint64(s[i])
		}
		return out
	case *SymStr:
		return s.B
	}
	panic(fmt.Sprintf("strBytes: %T", v))
}

func strLen(v Value) int {
	switch s := v.(type) {
	case string:
		return len(s)
	case *SymStr:
		return len(s.B)
	}
	panic(fmt.Sprintf("strLen: %T", v))
}

func mkStr(b []Value) Value {
	conc := true
	for _, x := range b {
		if _, ok := x.(uint64); !ok {
			conc = false
			break
		}
	}
	if conc {
		var sb strings.Builder
		sb.Grow(len(b))
		for _, x := range b {
			sb.WriteByte(byte(x.(uint64)))
		}
		return sb.String()
	}
	cp := make([]Value, len(b))
	copy(cp, b)
	return &SymStr{B: cp}
}

func strSlice(v Value, lo, hi int) Value {
	switch s := v.(type) {
	case string:
		return s[lo:hi]
	case *SymStr:
		return mkStr(s.B[lo:hi])
	}
	panic("strSlice")
}

func strIndex(v Value, i int) Value {
	switch s := v.(type) {
	case string:
		return uint64(s[i])
	case *SymStr:
		return s.B[i]
	}
	panic("strIndex")
}

func strConcat(a, b Value) Value {
	if x, ok := a.(string); ok {
		if y, ok := b.(string); ok {
			return x + y
		}
	}
	ab, bb := strBytes(a), strBytes(b)
	out := make([]Value, 0, len(ab)+len(bb))
	out = append(out, ab...)
	out = append(out, bb...)
	return mkStr(out)
}

// ---------------------------------------------------------------------------
// lifting to terms

func isSym(v Value) bool {
	_, ok := v.(*Term)
	return ok
}

func toTermBV(v Value, w Sort) *Term {
	switch x := v.(type) {
	case *Term:
		return x
	case uint64:
		return mkBV(x, w)
	}
	panic(fmt.Sprintf("toTermBV: %T", v))
}

func toTermBool(v Value) *Term {
	switch x := v.(type) {
	case *Term:
		return x
	case bool:
		return mkBool(x)
	}
	panic(fmt.Sprintf("toTermBool: %T", v))
}

// toTermLike lifts v to the sort of like.
func toTermLike(v Value, like *Term, signed bool) *Term {
	if t, ok := v.(*Term); ok {
		return t
	}
	switch like.Sort {
	case SBool:
		return mkBool(v.(bool))
	case SInt:
		u := v.(uint64)
		return mkIntC(int64(u))
	}
	return mkBV(v.(uint64), like.Sort)
}

// describe renders a value for traces and evidence samples.
func describe(v Value) string {
	switch x := v.(type) {
	case nil:
		return "nil"
	case bool:
		return fmt.Sprint(x)
	case uint64:
		return fmt.Sprint(x)
	case float64:
		return fmt.Sprint(x)
	case string:
		return fmt.Sprintf("%q", x)
	case *SymStr:
		return fmt.Sprintf("symstr[%d]", len(x.B))
	case *Term:
		return x.String()
	case Ptr:
		return fmt.Sprintf("&%d+%d", x.ID, x.Off)
	case Slice:
		return fmt.Sprintf("slice(%d+%d,%d,%d)", x.ID, x.Off, x.Len, x.Cap)
	case Agg:
		parts := make([]string, len(x))
		for i, e := range x {
			parts[i] = describe(e)
		}
		return "{" + strings.Join(parts, ",") + "}"
	case Iface:
		if x.T == nil {
			return "nil-iface"
		}
		return "iface(" + x.T.Str + ":" + describe(x.V) + ")"
	case *Closure:
		if x == nil {
			return "nil-func"
		}
		return "func " + x.Fn.String()
	}
	return fmt.Sprintf("%T", v)
}
