package main

import (
	"encoding/json"
	"fmt"
	"go/types"
	"math"
	"regexp"
	"strings"
	"time"
	"unsafe"

	"golang.org/x/tools/go/ssa"
)

// Env holds the environment models. It is deep-copied on fork.
type Env struct {
	pools    map[Ptr][]Value // sync.Pool address -> put objects
	syncMaps map[Ptr][]MapEntry
	files    []*FileNode
	fds      []*FD
	clockFrozen bool
	clockSym bool
	clockN   int
	lastNow  Value // last reading (seconds): *Term(Int) or nil
	fixedNow int64 // concrete clock: unix nanoseconds
	faults   map[string]bool
	openLog  []string // paths of OpenFile attempts
	removed  []string
	faultOpen  bool // OpenFile may fail (symbolic choice)
	faultWrite bool
	faultWriteAll bool // every write to a model file fails (a target that opens but cannot be written, e.g. a full disk)
	writes     int
	writeFaults int
	readings   []Value
	window     int // > 0: every reading is at most this many seconds after the first one
	stallIv    int // > 0: stall rule of DESIGN.md §C13 with this interval (seconds)
}

type FileNode struct {
	dir     string
	name    Value // string or *SymStr
	content []Value
	mtime   Value // seconds (uint64 internal seconds or *Term Int unix seconds)
	isDir   bool
	removed bool
}

type FD struct {
	node   *FileNode
	nodeIx int
	path   string
	flags  int
	closed bool
	std    int // >0 for the standard streams
	obj    int32
	offset int
	dirPath string // non-empty: the descriptor is an open directory
}

func newEnv() *Env {
	return &Env{pools: map[Ptr][]Value{}, syncMaps: map[Ptr][]MapEntry{},
		fixedNow: time.Date(2026, 1, 2, 3, 4, 5, 678000000, time.UTC).UnixNano()}
}

func (e *Env) clone() *Env {
	c := *e
	c.pools = make(map[Ptr][]Value, len(e.pools))
	for k, v := range e.pools {
		c.pools[k] = append([]Value(nil), v...)
	}
	c.syncMaps = make(map[Ptr][]MapEntry, len(e.syncMaps))
	for k, v := range e.syncMaps {
		c.syncMaps[k] = append([]MapEntry(nil), v...)
	}
	c.files = make([]*FileNode, len(e.files))
	for k, v := range e.files {
		n := *v
		n.content = append([]Value(nil), v.content...)
		c.files[k] = &n
	}
	c.fds = make([]*FD, len(e.fds))
	for i, f := range e.fds {
		n := *f
		if n.nodeIx >= 0 && n.nodeIx < len(c.files) {
			n.node = c.files[n.nodeIx]
		}
		c.fds[i] = &n
	}
	c.openLog = append([]string(nil), e.openLog...)
	c.readings = append([]Value(nil), e.readings...)
	c.removed = append([]string(nil), e.removed...)
	return &c
}

func (e *Env) stdFile(s *State, fd int) Value {
	for len(e.fds) <= fd {
		nd := &FileNode{dir: "/dev", name: fmt.Sprintf("std%d", len(e.fds))}
		e.files = append(e.files, nd)
		e.fds = append(e.fds, &FD{std: len(e.fds) + 1, path: fmt.Sprintf("/dev/std%d", len(e.fds)), node: nd, nodeIx: len(e.files) - 1})
	}
	f := e.fds[fd]
	if f.obj == 0 {
		f.obj = s.allocMem([]Value{uint64(fd)})
	}
	return Ptr{ID: f.obj}
}

func ptrArg(c *callCtx, i int) Ptr {
	p, ok := c.args[i].(Ptr)
	if !ok {
		c.s.unsupported("%s: pointer argument expected, got %T", c.fn, c.args[i])
	}
	if p.ID == 0 {
		panic(goPanic{c.s.runtimeError("invalid memory address or nil pointer dereference")})
	}
	return p
}

func (e *Engine) addSyncAtomic() {
	in := e.intrinsics
	vis := func(name string) { e.visible[name] = true }
	load := func(c *callCtx) Value { p := ptrArg(c, 0); return c.s.obj(p.ID).slots[p.Off] }
	store := func(c *callCtx) Value { p := ptrArg(c, 0); c.s.wobj(p.ID).slots[p.Off] = c.args[1]; return nil }
	swap := func(c *callCtx) Value {
		p := ptrArg(c, 0)
		o := c.s.wobj(p.ID)
		old := o.slots[p.Off]
		o.slots[p.Off] = c.args[1]
		return old
	}
	cas := func(c *callCtx) Value {
		p := ptrArg(c, 0)
		cur := c.s.obj(p.ID).slots[p.Off]
		eq := c.s.eqValue(cur, c.args[1])
		if c.s.branch(c.w, eq) {
			c.s.wobj(p.ID).slots[p.Off] = c.args[2]
			return true
		}
		return false
	}
	addw := func(w Sort) Intrinsic {
		return func(c *callCtx) Value {
			p := ptrArg(c, 0)
			o := c.s.wobj(p.ID)
			var t types.Type = types.Typ[types.Int64]
			if w == 32 {
				t = types.Typ[types.Int32]
			}
			nv := c.s.intBinop(tokenADD, o.slots[p.Off], c.args[1], w, true, t)
			o.slots[p.Off] = nv
			return nv
		}
	}
	for _, sfx := range []string{"Int32", "Int64", "Uint32", "Uint64", "Uintptr", "Pointer"} {
		in["sync/atomic.Load"+sfx] = load
		in["sync/atomic.Store"+sfx] = store
		in["sync/atomic.Swap"+sfx] = swap
		in["sync/atomic.CompareAndSwap"+sfx] = cas
		for _, op := range []string{"Load", "Store", "Swap", "CompareAndSwap"} {
			vis("sync/atomic." + op + sfx)
		}
	}
	in["sync/atomic.AddInt32"] = addw(32)
	in["sync/atomic.AddUint32"] = addw(32)
	in["sync/atomic.AddInt64"] = addw(64)
	in["sync/atomic.AddUint64"] = addw(64)
	in["sync/atomic.AddUintptr"] = addw(64)
	for _, n := range []string{"AddInt32", "AddUint32", "AddInt64", "AddUint64", "AddUintptr"} {
		vis("sync/atomic." + n)
	}
	// internal/runtime/atomic is used by some std code paths
	// sync.Mutex: state in the first slot (0 unlocked, 1 locked)
	in["(*sync.Mutex).Lock"] = func(c *callCtx) Value {
		p := ptrArg(c, 0)
		if c.s.obj(p.ID).slots[p.Off] != uint64(0) {
			c.block = true
			return nil
		}
		c.s.wobj(p.ID).slots[p.Off] = uint64(1)
		return nil
	}
	e.enabledChecks["(*sync.Mutex).Lock"] = func(s *State, args []Value) bool {
		p, ok := args[0].(Ptr)
		if !ok || p.ID == 0 {
			return true
		}
		return s.obj(p.ID).slots[p.Off] == uint64(0)
	}
	in["(*sync.Mutex).Unlock"] = func(c *callCtx) Value {
		p := ptrArg(c, 0)
		if c.s.obj(p.ID).slots[p.Off] == uint64(0) {
			c.s.abort("PANIC", "sync: unlock of unlocked mutex")
		}
		c.s.wobj(p.ID).slots[p.Off] = uint64(0)
		return nil
	}
	in["(*sync.Mutex).TryLock"] = func(c *callCtx) Value {
		p := ptrArg(c, 0)
		if c.s.obj(p.ID).slots[p.Off] != uint64(0) {
			return false
		}
		c.s.wobj(p.ID).slots[p.Off] = uint64(1)
		return true
	}
	for _, n := range []string{"Lock", "Unlock", "TryLock"} {
		vis("(*sync.Mutex)." + n)
	}
	in["(*sync.RWMutex).Lock"] = in["(*sync.Mutex).Lock"]
	in["(*sync.RWMutex).Unlock"] = in["(*sync.Mutex).Unlock"]
	in["(*sync.RWMutex).RLock"] = in["(*sync.Mutex).Lock"]
	in["(*sync.RWMutex).RUnlock"] = in["(*sync.Mutex).Unlock"]
	e.enabledChecks["(*sync.RWMutex).Lock"] = e.enabledChecks["(*sync.Mutex).Lock"]
	e.enabledChecks["(*sync.RWMutex).RLock"] = e.enabledChecks["(*sync.Mutex).Lock"]
	for _, n := range []string{"Lock", "Unlock", "RLock", "RUnlock"} {
		vis("(*sync.RWMutex)." + n)
	}
	// sync.Once: done flag in the first slot
	in["(*sync.Once).Do"] = func(c *callCtx) Value {
		p := ptrArg(c, 0)
		if c.s.obj(p.ID).slots[p.Off] != uint64(0) {
			return nil
		}
		c.s.wobj(p.ID).slots[p.Off] = uint64(1)
		c.dest = -1
		return c.tailCall(c.args[1], nil)
	}
	// sync.Pool
	in["(*sync.Pool).Put"] = func(c *callCtx) Value {
		p := ptrArg(c, 0)
		if iv, ok := c.args[1].(Iface); ok && iv.T == nil {
			return nil
		}
		c.s.env.pools[p] = append(c.s.env.pools[p], c.args[1])
		return nil
	}
	in["(*sync.Pool).Get"] = func(c *callCtx) Value {
		p := ptrArg(c, 0)
		items := c.s.env.pools[p]
		pick := -1
		if len(items) > 0 {
			if c.s.opts.PoolAny {
				k := c.s.choose(c.w, len(items)+1)
				c.s.choices = append(c.s.choices, ChoiceRec{"pool", k})
				pick = k - 1 // 0 = miss
			} else {
				pick = len(items) - 1
			}
		}
		if pick >= 0 {
			v := items[pick]
			ni := append(append([]Value(nil), items[:pick]...), items[pick+1:]...)
			c.s.env.pools[p] = ni
			return v
		}
		// New is the last field of sync.Pool
		st := c.fn.Signature.Recv().Type().(*types.Pointer).Elem().Underlying().(*types.Struct)
		off := int32(fieldOffset(st, st.NumFields()-1))
		nf := c.s.obj(p.ID).slots[p.Off+off]
		if cl, ok := nf.(*Closure); ok && cl != nil {
			return c.tailCall(cl, nil)
		}
		return Iface{}
	}
	vis("(*sync.Pool).Put")
	vis("(*sync.Pool).Get")
	// sync.Map as an association list keyed by the map's address
	in["(*sync.Map).Load"] = func(c *callCtx) Value {
		p := ptrArg(c, 0)
		for _, e := range c.s.env.syncMaps[p] {
			if c.s.eqValue(e.K, c.args[1]) == true {
				return Tuple{e.V, true}
			}
		}
		return Tuple{Iface{}, false}
	}
	in["(*sync.Map).Store"] = func(c *callCtx) Value {
		p := ptrArg(c, 0)
		es := c.s.env.syncMaps[p]
		for i, e := range es {
			if c.s.eqValue(e.K, c.args[1]) == true {
				ne := append([]MapEntry(nil), es...)
				ne[i].V = c.args[2]
				c.s.env.syncMaps[p] = ne
				return nil
			}
		}
		c.s.env.syncMaps[p] = append(append([]MapEntry(nil), es...), MapEntry{K: c.args[1], V: c.args[2]})
		return nil
	}
	smFind := func(c *callCtx, p Ptr, k Value) int {
		for i, e := range c.s.env.syncMaps[p] {
			if c.s.eqValue(e.K, k) == true {
				return i
			}
		}
		return -1
	}
	in["(*sync.Map).LoadOrStore"] = func(c *callCtx) Value {
		p := ptrArg(c, 0)
		if i := smFind(c, p, c.args[1]); i >= 0 {
			return Tuple{c.s.env.syncMaps[p][i].V, true}
		}
		c.s.env.syncMaps[p] = append(append([]MapEntry(nil), c.s.env.syncMaps[p]...), MapEntry{K: c.args[1], V: c.args[2]})
		return Tuple{c.args[2], false}
	}
	smDelete := func(c *callCtx) (Value, bool) {
		p := ptrArg(c, 0)
		i := smFind(c, p, c.args[1])
		if i < 0 {
			return Iface{}, false
		}
		es := c.s.env.syncMaps[p]
		v := es[i].V
		c.s.env.syncMaps[p] = append(append([]MapEntry(nil), es[:i]...), es[i+1:]...)
		return v, true
	}
	in["(*sync.Map).LoadAndDelete"] = func(c *callCtx) Value {
		v, ok := smDelete(c)
		return Tuple{v, ok}
	}
	in["(*sync.Map).Delete"] = func(c *callCtx) Value { smDelete(c); return nil }
	in["(*sync.Map).Swap"] = func(c *callCtx) Value {
		p := ptrArg(c, 0)
		es := c.s.env.syncMaps[p]
		if i := smFind(c, p, c.args[1]); i >= 0 {
			ne := append([]MapEntry(nil), es...)
			old := ne[i].V
			ne[i].V = c.args[2]
			c.s.env.syncMaps[p] = ne
			return Tuple{old, true}
		}
		c.s.env.syncMaps[p] = append(append([]MapEntry(nil), es...), MapEntry{K: c.args[1], V: c.args[2]})
		return Tuple{Iface{}, false}
	}
	in["(*sync.Map).CompareAndSwap"] = func(c *callCtx) Value {
		p := ptrArg(c, 0)
		es := c.s.env.syncMaps[p]
		if i := smFind(c, p, c.args[1]); i >= 0 && c.s.eqValue(es[i].V, c.args[2]) == true {
			ne := append([]MapEntry(nil), es...)
			ne[i].V = c.args[3]
			c.s.env.syncMaps[p] = ne
			return true
		}
		return false
	}
	in["(*sync.Map).Clear"] = func(c *callCtx) Value {
		delete(c.s.env.syncMaps, ptrArg(c, 0))
		return nil
	}
	in["(*sync.Map).Range"] = func(c *callCtx) Value {
		p := ptrArg(c, 0)
		snapshot := append([]MapEntry(nil), c.s.env.syncMaps[p]...)
		f := c.args[1].(*Closure)
		var step func(i int)
		dest, site, t := c.dest, c.site, c.t
		step = func(i int) {
			if i >= len(snapshot) {
				return
			}
			nf := c.s.newFrame(f.Fn, []Value{snapshot[i].K, snapshot[i].V}, f.Env, -1)
			nf.callSite = site
			nf.post = func(s *State, rv Value) Value {
				if b, ok := rv.(bool); ok && b {
					step(i + 1)
				}
				return rv
			}
			t.frames = append(t.frames, nf)
		}
		_ = dest
		if len(snapshot) > 0 {
			step(0)
			c.tail = true
			c.dest = -1
		}
		return nil
	}
	for _, n := range []string{"Load", "Store", "LoadOrStore", "LoadAndDelete", "Delete", "Swap", "CompareAndSwap", "Clear", "Range"} {
		vis("(*sync.Map)." + n)
	}
	// sync.WaitGroup: counter in slot 0 (modelled on our own layout: first slot)
	in["(*sync.WaitGroup).Add"] = func(c *callCtx) Value {
		p := ptrArg(c, 0)
		o := c.s.wobj(p.ID)
		cur, _ := o.slots[p.Off].(uint64)
		o.slots[p.Off] = cur + c.args[1].(uint64)
		return nil
	}
	in["(*sync.WaitGroup).Done"] = func(c *callCtx) Value {
		p := ptrArg(c, 0)
		o := c.s.wobj(p.ID)
		cur, _ := o.slots[p.Off].(uint64)
		o.slots[p.Off] = cur - 1
		return nil
	}
	in["(*sync.WaitGroup).Wait"] = func(c *callCtx) Value {
		p := ptrArg(c, 0)
		if cur, _ := c.s.obj(p.ID).slots[p.Off].(uint64); cur != 0 {
			c.block = true
		}
		return nil
	}
	e.enabledChecks["(*sync.WaitGroup).Wait"] = func(s *State, args []Value) bool {
		p, ok := args[0].(Ptr)
		if !ok || p.ID == 0 {
			return true
		}
		cur, _ := s.obj(p.ID).slots[p.Off].(uint64)
		return cur == 0
	}
	for _, n := range []string{"Add", "Done", "Wait"} {
		vis("(*sync.WaitGroup)." + n)
	}
	in["time.Sleep"] = func(c *callCtx) Value { return nil }
	vis("time.Sleep")
	e.yields["time.Sleep"] = true
	in["runtime.Gosched"] = func(c *callCtx) Value { return nil }
	vis("runtime.Gosched")
	e.yields["runtime.Gosched"] = true
}

const tokenADD = 12 // token.ADD

// ---------------------------------------------------------------------------
// time and file system

// time.Time layout: wall uint64, ext int64, loc *Location. The engine uses wall = nanoseconds
// (no monotonic reading), ext = seconds since year 1 (uint64 raw or *Term Int = unix seconds).
const unixToInternal int64 = (1969*365 + 1969/4 - 1969/100 + 1969/400) * 86400

func mkTime(sec Value, nsec uint64) Agg {
	return Agg{nsec, sec, Ptr{}}
}

func (s *State) timeParts(v Value) (sec Value, nsec uint64) {
	a := v.(Agg)
	ns, _ := a[0].(uint64)
	return a[1], ns
}

func nativeTime(sec uint64, nsec uint64) time.Time {
	// sec is seconds since year 1 (internal)
	type tt struct {
		wall uint64
		ext  int64
		loc  *time.Location
	}
	x := tt{wall: nsec, ext: int64(sec), loc: nil}
	return *(*time.Time)(unsafe.Pointer(&x))
}

func (e *Engine) addEnvIntrinsics() {
	in := e.intrinsics
	in["time.Now"] = func(c *callCtx) Value {
		env := c.s.env
		if env.clockSym && env.clockFrozen {
			return mkTime(env.symNow(c), 0)
		}
		if env.clockSym {
			name := c.s.freshName(fmt.Sprintf("now%d", env.clockN))
			env.clockN++
			v := mkVar(name, SInt)
			c.s.pinReplay(c.w, v)
			c.s.inputs = append(c.s.inputs, InputRec{Name: name, Kind: "lia", Vars: []string{name}})
			lo := Value(mkIntC(1 << 30))
			if env.lastNow != nil {
				lo = env.lastNow
			}
			ok := c.s.assume(c.w, mkAndB(mkCmp(OILe, lo.(*Term), v), mkCmp(OILt, v, mkIntC(1<<40))))
			if ok && env.window > 0 && len(env.readings) > 0 {
				ok = c.s.assume(c.w, mkCmp(OILe, v, mkIntBin(OAdd, env.readings[0].(*Term), mkIntC(int64(env.window)))))
			}
			if ok && env.stallIv > 0 && env.lastNow != nil && c.s.otherInside(c.t, "RollingFileAppender).Write") {
				// stall rule: no boundary is crossed while another thread is suspended inside Write
				iv := mkIntC(int64(env.stallIv))
				ok = c.s.assume(c.w, mkEq(mkIntBin(OIDiv, v, iv), mkIntBin(OIDiv, env.lastNow.(*Term), iv)))
			}
			if !ok {
				c.s.finish("INFEASIBLE", "")
			}
			env.lastNow = v
			env.readings = append(env.readings, v)
			return mkTime(v, 0)
		}
		env.fixedNow += int64(time.Millisecond)
		sec := env.fixedNow/1e9 + unixToInternal
		return mkTime(uint64(sec), uint64(env.fixedNow%1e9))
	}
	in["time.Date"] = func(c *callCtx) Value {
		a := make([]int, 7)
		for i := range a {
			a[i] = c.int(i)
		}
		nt := time.Date(a[0], time.Month(a[1]), a[2], a[3], a[4], a[5], a[6], time.UTC)
		return mkTime(uint64(nt.Unix()+unixToInternal), uint64(nt.Nanosecond()))
	}
	in["time.Unix"] = func(c *callCtx) Value {
		sec, nsec := c.args[0], c.args[1]
		if t, ok := sec.(*Term); ok {
			if t.Sort != SInt {
				c.s.unsupported("time.Unix with bit-vector seconds")
			}
			return mkTime(t, 0)
		}
		ns, _ := nsec.(uint64)
		sv := int64(sec.(uint64)) + int64(ns)/1e9
		return mkTime(uint64(sv+unixToInternal), uint64(int64(ns)%1e9))
	}
	in["(time.Time).Unix"] = func(c *callCtx) Value {
		sec, _ := c.s.timeParts(c.args[0])
		if t, ok := sec.(*Term); ok {
			return t
		}
		return uint64(int64(sec.(uint64)) - unixToInternal)
	}
	in["(time.Time).UnixNano"] = func(c *callCtx) Value {
		sec, ns := c.s.timeParts(c.args[0])
		if _, ok := sec.(*Term); ok {
			c.s.unsupported("UnixNano of symbolic time")
		}
		return uint64((int64(sec.(uint64))-unixToInternal)*1e9 + int64(ns))
	}
	in["(time.Time).IsZero"] = func(c *callCtx) Value {
		sec, ns := c.s.timeParts(c.args[0])
		if _, ok := sec.(*Term); ok {
			return false
		}
		return sec.(uint64) == 0 && ns == 0
	}
	in["(time.Time).Truncate"] = func(c *callCtx) Value {
		sec, ns := c.s.timeParts(c.args[0])
		d := int64(c.args[1].(uint64))
		if d <= 0 {
			return c.args[0]
		}
		if t, ok := sec.(*Term); ok {
			if d%int64(time.Second) != 0 || 86400%(d/int64(time.Second)) != 0 {
				c.s.unsupported("Truncate(%d) of symbolic time: interval must be whole seconds dividing a day", d)
			}
			ds := mkIntC(d / int64(time.Second))
			return mkTime(mkIntBin(OSub, t, mkIntBin(OIMod, t, ds)), 0)
		}
		nt := nativeTime(sec.(uint64), ns).Truncate(time.Duration(d))
		return mkTime(uint64(nt.Unix()+unixToInternal), uint64(nt.Nanosecond()))
	}
	in["(time.Time).Add"] = func(c *callCtx) Value {
		sec, ns := c.s.timeParts(c.args[0])
		if dt, ok := c.args[1].(*Term); ok {
			// symbolic duration (Int-encoded nanoseconds, a whole number of seconds by construction)
			if dt.Sort != SInt {
				c.s.unsupported("Time.Add with bit-vector duration")
			}
			ds := mkIntBin(OIDiv, dt, mkIntC(1e9))
			var base *Term
			if t, ok := sec.(*Term); ok {
				base = t
			} else {
				base = mkIntC(int64(sec.(uint64)) - unixToInternal)
			}
			return mkTime(mkIntBin(OAdd, base, ds), 0)
		}
		d := int64(c.args[1].(uint64))
		if t, ok := sec.(*Term); ok {
			if d%int64(time.Second) != 0 {
				c.s.unsupported("Add of sub-second duration to symbolic time")
			}
			return mkTime(mkIntBin(OAdd, t, mkIntC(d/int64(time.Second))), ns)
		}
		nt := nativeTime(sec.(uint64), ns).Add(time.Duration(d))
		return mkTime(uint64(nt.Unix()+unixToInternal), uint64(nt.Nanosecond()))
	}
	in["(time.Time).AddDate"] = func(c *callCtx) Value {
		sec, ns := c.s.timeParts(c.args[0])
		su, ok := sec.(uint64)
		y, ok1 := c.args[1].(uint64)
		m, ok2 := c.args[2].(uint64)
		d, ok3 := c.args[3].(uint64)
		if !ok || !ok1 || !ok2 || !ok3 {
			c.s.unsupported("Time.AddDate on a symbolic time or with symbolic arguments")
		}
		if loc, isPtr := c.args[0].(Agg)[2].(Ptr); !isPtr || loc.ID != 0 {
			c.s.unsupported("Time.AddDate outside UTC")
		}
		nt := nativeTime(su, ns).AddDate(int(int64(y)), int(int64(m)), int(int64(d)))
		return mkTime(uint64(nt.Unix()+unixToInternal), uint64(nt.Nanosecond()))
	}
	cmpTime := func(c *callCtx, lt bool) Value {
		s1, n1 := c.s.timeParts(c.args[0])
		s2, n2 := c.s.timeParts(c.args[1])
		t1, sym1 := s1.(*Term)
		t2, sym2 := s2.(*Term)
		if !sym1 && !sym2 {
			a, b := int64(s1.(uint64)), int64(s2.(uint64))
			if lt {
				return a < b || (a == b && n1 < n2)
			}
			return a > b || (a == b && n1 > n2)
		}
		if !sym1 {
			t1 = mkIntC(int64(s1.(uint64)) - unixToInternal)
		}
		if !sym2 {
			t2 = mkIntC(int64(s2.(uint64)) - unixToInternal)
		}
		if lt {
			return mkCmp(OILt, t1, t2)
		}
		return mkCmp(OILt, t2, t1)
	}
	in["(time.Time).Before"] = func(c *callCtx) Value { return cmpTime(c, true) }
	in["(time.Time).After"] = func(c *callCtx) Value { return cmpTime(c, false) }
	in["(time.Time).Format"] = func(c *callCtx) Value {
		sec, ns := c.s.timeParts(c.args[0])
		layout := c.str(1)
		if t, ok := sec.(*Term); ok {
			// opaque digits with the axiom equal seconds <=> equal text
			return c.s.env.formatSym(c.s, c.w, t, layout)
		}
		nt := nativeTime(sec.(uint64), ns).UTC()
		if nv, ok := c.args[0].(Agg)[2].(NativeVal); ok {
			nt = nt.In(nv.V.(*time.Location))
		}
		return nt.Format(layout)
	}
	in["time.Parse"] = func(c *callCtx) Value {
		layout, ok1 := c.args[0].(string)
		val, ok2 := c.args[1].(string)
		if !ok1 || !ok2 {
			c.s.unsupported("time.Parse of a symbolic string (the symbolic clock formats to opaque digits)")
		}
		nt, err := time.Parse(layout, val)
		if err != nil {
			return Tuple{mkTime(uint64(0), 0), c.s.newError(err.Error())}
		}
		return Tuple{mkTime(uint64(nt.Unix()+unixToInternal), uint64(nt.Nanosecond())), Iface{}}
	}
	in["time.FixedZone"] = func(c *callCtx) Value {
		return NativeVal{time.FixedZone(c.str(0), c.int(1))}
	}
	in["(time.Time).In"] = func(c *callCtx) Value {
		a := append(Agg(nil), c.args[0].(Agg)...)
		a[2] = c.args[1]
		return a
	}
	in["(time.Time).UTC"] = func(c *callCtx) Value {
		a := append(Agg(nil), c.args[0].(Agg)...)
		a[2] = Ptr{}
		return a
	}
	in["(time.Time).Equal"] = func(c *callCtx) Value {
		s1, n1 := c.s.timeParts(c.args[0])
		s2, n2 := c.s.timeParts(c.args[1])
		return andValue(c.s.eqValue(s1, s2), n1 == n2)
	}
	in["(time.Time).AppendFormat"] = func(c *callCtx) Value {
		sec, ns := c.s.timeParts(c.args[0])
		layout := c.str(2)
		var text Value
		if t, ok := sec.(*Term); ok {
			text = c.s.env.formatSym(c.s, c.w, t, layout)
		} else {
			nt := nativeTime(sec.(uint64), ns).UTC()
			if nv, ok := c.args[0].(Agg)[2].(NativeVal); ok {
				nt = nt.In(nv.V.(*time.Location))
			}
			text = nt.Format(layout)
		}
		return c.s.appendSlice(c.args[1].(Slice), text, types.Typ[types.Uint8])
	}
	// calendar getters on concrete times (native)
	getter := func(f func(time.Time) int64) Intrinsic {
		return func(c *callCtx) Value {
			sec, ns := c.s.timeParts(c.args[0])
			if _, ok := sec.(*Term); ok {
				c.s.unsupported("%s of a symbolic time", c.fn.Name())
			}
			nt := nativeTime(sec.(uint64), ns).UTC()
			if nv, ok := c.args[0].(Agg)[2].(NativeVal); ok {
				nt = nt.In(nv.V.(*time.Location))
			}
			return uint64(f(nt))
		}
	}
	in["(time.Time).Year"] = getter(func(t time.Time) int64 { return int64(t.Year()) })
	in["(time.Time).Month"] = getter(func(t time.Time) int64 { return int64(t.Month()) })
	in["(time.Time).Day"] = getter(func(t time.Time) int64 { return int64(t.Day()) })
	in["(time.Time).Hour"] = getter(func(t time.Time) int64 { return int64(t.Hour()) })
	in["(time.Time).Minute"] = getter(func(t time.Time) int64 { return int64(t.Minute()) })
	in["(time.Time).Second"] = getter(func(t time.Time) int64 { return int64(t.Second()) })
	in["(time.Time).Nanosecond"] = getter(func(t time.Time) int64 { return int64(t.Nanosecond()) })
	in["(time.Time).YearDay"] = getter(func(t time.Time) int64 { return int64(t.YearDay()) })
	in["(time.Time).Weekday"] = getter(func(t time.Time) int64 { return int64(t.Weekday()) })
	in["(time.Time).UnixMilli"] = func(c *callCtx) Value {
		sec, ns := c.s.timeParts(c.args[0])
		if t, ok := sec.(*Term); ok {
			return mkIntBin(OMul, t, mkIntC(1000))
		}
		return uint64((int64(sec.(uint64))-unixToInternal)*1000 + int64(ns)/1e6)
	}
	in["(time.Time).UnixMicro"] = func(c *callCtx) Value {
		sec, ns := c.s.timeParts(c.args[0])
		if t, ok := sec.(*Term); ok {
			return mkIntBin(OMul, t, mkIntC(1000000))
		}
		return uint64((int64(sec.(uint64))-unixToInternal)*1000000 + int64(ns)/1e3)
	}
	in["(time.Time).Sub"] = func(c *callCtx) Value {
		s1, n1 := c.s.timeParts(c.args[0])
		s2, n2 := c.s.timeParts(c.args[1])
		t1, sym1 := s1.(*Term)
		t2, sym2 := s2.(*Term)
		if !sym1 && !sym2 {
			return uint64((int64(s1.(uint64))-int64(s2.(uint64)))*1e9 + int64(n1) - int64(n2))
		}
		if !sym1 {
			t1 = mkIntC(int64(s1.(uint64)) - unixToInternal)
		}
		if !sym2 {
			t2 = mkIntC(int64(s2.(uint64)) - unixToInternal)
		}
		return mkIntBin(OMul, mkIntBin(OSub, t1, t2), mkIntC(1e9))
	}
	in["time.Since"] = nil
	delete(in, "time.Since")
	in["(time.Time).String"] = func(c *callCtx) Value { return "<time>" }
	in["(time.Duration).String"] = func(c *callCtx) Value { return time.Duration(int64(c.args[0].(uint64))).String() }

	// --- os ---
	in["os.OpenFile"] = func(c *callCtx) Value {
		env := c.s.env
		path := c.args[0]
		flags := c.int(1)
		// all decisions first (a forked state re-executes this call from the start), mutations after
		fail := false
		if env.faultOpen {
			k := c.s.choose(c.w, 2)
			c.s.choices = append(c.s.choices, ChoiceRec{"openfault", k})
			fail = k == 1
		}
		if ps, ok := path.(string); ok && !fail && env.dirExists(strings.TrimSuffix(ps, "/")) {
			// an existing directory, opened for reading its entries
			if flags&0x3 != 0 || flags&0x40 != 0 {
				return Tuple{Ptr{}, c.s.newError("open " + ps + ": is a directory")}
			}
			fd := &FD{path: ps, flags: flags, dirPath: strings.TrimSuffix(ps, "/"), nodeIx: -1}
			fd.obj = c.s.allocMem([]Value{uint64(len(env.fds))})
			env.fds = append(env.fds, fd)
			return Tuple{Ptr{ID: fd.obj}, Iface{}}
		}
		dir, name := splitPath(c, path)
		ix := -1
		if !fail && !env.dirExists(dir) {
			fail = true
		}
		if !fail {
			ix = env.find(c, dir, name)
		}
		env.openLog = append(env.openLog, c.s.evalDescribe(path))
		if fail {
			return Tuple{Ptr{}, c.s.newError(strConcat(strConcat("open ", path), ": no such file or directory"))}
		}
		if ix < 0 {
			if flags&0x40 == 0 { // O_CREATE
				return Tuple{Ptr{}, c.s.newError(strConcat(strConcat("open ", path), ": no such file or directory"))}
			}
			env.files = append(env.files, &FileNode{dir: dir, name: name, mtime: env.nowSec()})
			ix = len(env.files) - 1
		} else if env.files[ix].isDir {
			return Tuple{Ptr{}, c.s.newError(strConcat(strConcat("open ", path), ": is a directory"))}
		}
		f := env.files[ix]
		if flags&0x200 != 0 { // O_TRUNC
			f.content = nil
		}
		fd := &FD{path: c.s.evalDescribe(path), flags: flags, node: f, nodeIx: ix}
		fd.obj = c.s.allocMem([]Value{uint64(len(env.fds))})
		env.fds = append(env.fds, fd)
		return Tuple{Ptr{ID: fd.obj}, Iface{}}
	}
	fileOf := func(c *callCtx) *FD {
		p, ok := c.args[0].(Ptr)
		if !ok || p.ID == 0 {
			return nil
		}
		idx, _ := c.s.obj(p.ID).slots[p.Off].(uint64)
		if int(idx) >= len(c.s.env.fds) {
			return nil
		}
		return c.s.env.fds[idx]
	}
	in["(*os.File).Write"] = func(c *callCtx) Value {
		fd := fileOf(c)
		if fd == nil {
			return Tuple{uint64(0), c.s.newError("invalid argument")}
		}
		if fd.closed {
			return Tuple{uint64(0), c.s.newError("write " + fd.path + ": file already closed")}
		}
		if fd.dirPath != "" {
			return Tuple{uint64(0), c.s.newError("write " + fd.path + ": bad file descriptor")}
		}
		env := c.s.env
		if env.faultWriteAll && fd.std == 0 {
			env.writeFaults++
			return Tuple{uint64(0), c.s.newError("write " + fd.path + ": no space left on device")}
		}
		if env.faultWrite && fd.std == 0 {
			k := c.s.choose(c.w, 2)
			c.s.choices = append(c.s.choices, ChoiceRec{"writefault", k})
			if k == 1 {
				env.writeFaults++
				return Tuple{uint64(0), c.s.newError("write " + fd.path + ": input/output error")}
			}
		}
		sl := c.args[1].(Slice)
		var data []Value
		if sl.Len > 0 {
			data = append(data, c.s.obj(sl.ID).slots[sl.Off:sl.Off+sl.Len]...)
		}
		f := fd.node
		if fd.flags&0x400 != 0 || fd.std != 0 { // O_APPEND
			f.content = append(f.content, data...)
		} else {
			// no O_APPEND: this descriptor writes from its own offset, starting at 0
			off := fd.offset
			for len(f.content) < off+len(data) {
				f.content = append(f.content, uint64(0))
			}
			copy(f.content[off:], data)
			fd.offset += len(data)
		}
		f.mtime = env.nowSec()
		env.writes++
		return Tuple{uint64(sl.Len), Iface{}}
	}
	e.visible["(*os.File).Write"] = true
	in["(*os.File).Sync"] = func(c *callCtx) Value {
		fd := fileOf(c)
		if fd == nil || fd.closed {
			return c.s.newError("sync: file already closed")
		}
		return Iface{}
	}
	in["(*os.File).Close"] = func(c *callCtx) Value {
		fd := fileOf(c)
		if fd == nil {
			return c.s.newError("invalid argument")
		}
		if fd.closed {
			return c.s.newError("close " + fd.path + ": file already closed")
		}
		fd.closed = true
		return Iface{}
	}
	e.visible["(*os.File).Close"] = true
	in["os.Remove"] = func(c *callCtx) Value {
		env := c.s.env
		dir, name := splitPath(c, c.args[0])
		ix := env.find(c, dir, name)
		if ix < 0 {
			return c.s.newError("remove: no such file or directory")
		}
		env.files[ix].removed = true
		env.removed = append(env.removed, c.s.evalDescribe(c.args[0]))
		return Iface{}
	}
	// regexp: compiled and matched natively on concrete patterns and subjects (a symbolic
	// subject is outside what the engine can decide: unsupported, i.e. inconclusive)
	plainStr := func(c *callCtx, i int) string {
		if x, ok := c.args[i].(string); ok {
			return x
		}
		c.s.unsupported("regexp on a symbolic string")
		return ""
	}
	in["regexp.MustCompile"] = func(c *callCtx) Value {
		re, err := regexp.Compile(plainStr(c, 0))
		if err != nil {
			panic(goPanic{c.s.newError("regexp: Compile: " + err.Error())})
		}
		return NativeVal{re}
	}
	in["regexp.Compile"] = func(c *callCtx) Value {
		re, err := regexp.Compile(plainStr(c, 0))
		if err != nil {
			return Tuple{Ptr{}, c.s.newError(err.Error())}
		}
		return Tuple{NativeVal{re}, Iface{}}
	}
	in["regexp.QuoteMeta"] = func(c *callCtx) Value { return regexp.QuoteMeta(plainStr(c, 0)) }
	in["regexp.MatchString"] = func(c *callCtx) Value {
		ok, err := regexp.MatchString(plainStr(c, 0), plainStr(c, 1))
		if err != nil {
			return Tuple{false, c.s.newError(err.Error())}
		}
		return Tuple{ok, Iface{}}
	}
	in["(*regexp.Regexp).MatchString"] = func(c *callCtx) Value {
		re := c.args[0].(NativeVal).V.(*regexp.Regexp)
		return re.MatchString(plainStr(c, 1))
	}
	in["(*regexp.Regexp).FindStringSubmatch"] = func(c *callCtx) Value {
		re := c.args[0].(NativeVal).V.(*regexp.Regexp)
		m := re.FindStringSubmatch(plainStr(c, 1))
		if m == nil {
			return Slice{}
		}
		slots := make([]Value, len(m))
		for i, x := range m {
			slots[i] = x
		}
		id := c.s.allocMem(slots)
		return Slice{ID: id, Len: int32(len(m)), Cap: int32(len(m))}
	}
	// (*os.File).ReadDir / Readdir / Readdirnames on an open directory (all entries at once)
	dirFD := func(c *callCtx) (*FD, Value) {
		fd := fileOf(c)
		if fd == nil {
			return nil, c.s.newError("invalid argument")
		}
		if fd.closed {
			return nil, c.s.newError("readdir " + fd.path + ": file already closed")
		}
		if fd.dirPath == "" {
			return nil, c.s.newError("readdirent " + fd.path + ": not a directory")
		}
		if n, ok := c.args[1].(uint64); !ok || int64(n) > 0 {
			c.s.unsupported("reading a directory in batches (n > 0)")
		}
		if !c.s.env.dirExists(fd.dirPath) {
			return nil, c.s.newError("readdirent " + fd.path + ": no such file or directory")
		}
		return fd, nil
	}
	for _, m := range []string{"ReadDir", "Readdir"} {
		in["(*os.File)."+m] = func(c *callCtx) Value {
			fd, err := dirFD(c)
			if fd == nil {
				return Tuple{Slice{}, err}
			}
			cc := *c
			cc.args = []Value{fd.dirPath}
			return in["os.ReadDir"](&cc) // the entry objects implement both fs.DirEntry and fs.FileInfo
		}
	}
	in["(*os.File).Readdirnames"] = func(c *callCtx) Value {
		fd, err := dirFD(c)
		if fd == nil {
			return Tuple{Slice{}, err}
		}
		var slots []Value
		for _, f := range c.s.env.files {
			if !f.removed && f.dir == fd.dirPath {
				slots = append(slots, f.name)
			}
		}
		id := c.s.allocMem(slots)
		return Tuple{Slice{ID: id, Len: int32(len(slots)), Cap: int32(len(slots))}, Iface{}}
	}
	in["(*os.File).Name"] = func(c *callCtx) Value {
		if fd := fileOf(c); fd != nil {
			return fd.path
		}
		c.s.unsupported("Name of a file outside the file-system model")
		return ""
	}
	in["os.ReadDir"] = func(c *callCtx) Value {
		dir := strings.TrimSuffix(c.concreteStr(0), "/")
		env := c.s.env
		if !env.dirExists(dir) {
			return Tuple{Slice{}, c.s.newError("open " + dir + ": no such file or directory")}
		}
		// entries are harness-side objects of type vDirEntry (see harness prelude)
		de := c.s.eng.logPkg.Type("vDirEntry")
		if de == nil {
			c.s.unsupported("os.ReadDir needs the harness type vDirEntry")
		}
		pt := rtypeOf(types.NewPointer(de.Type()))
		var slots []Value
		for _, f := range env.files {
			if f.removed || f.dir != dir {
				continue
			}
			ptr := c.s.allocType(de.Type())
			o := c.s.wobj(ptr.ID)
			o.slots[0] = f.name
			o.slots[1] = f.isDir
			var mt Value = uint64(0)
			if f.mtime != nil {
				mt = f.mtime
			}
			tm := mkTime(mt, 0)
			o.slots[2], o.slots[3], o.slots[4] = tm[0], tm[1], tm[2]
			slots = append(slots, Iface{T: pt, V: ptr})
		}
		n := len(slots)
		id := c.s.allocMem(slots)
		return Tuple{Slice{ID: id, Len: int32(n), Cap: int32(n)}, Iface{}}
	}
	// harness-side handles on the environment models
	for _, p := range []string{logPath + ".", logPath + "/expr."} {
		in[p+"vFSRoot"] = func(c *callCtx) Value { return "" }
		in[p+"vFSMkdir"] = func(c *callCtx) Value {
			c.s.env.files = append(c.s.env.files, &FileNode{dir: "", name: strings.TrimSuffix(c.concreteStr(0), "/"), isDir: true})
			return nil
		}
		in[p+"vFSRmdir"] = func(c *callCtx) Value {
			d := strings.TrimSuffix(c.concreteStr(0), "/")
			for _, f := range c.s.env.files {
				if f.isDir && f.dir == "" && f.name == d {
					f.removed = true
				}
			}
			return nil
		}
		in[p+"vFSAddFile"] = func(c *callCtx) Value {
			env := c.s.env
			dir := strings.TrimSuffix(c.concreteStr(0), "/")
			name := c.args[1]
			var content []Value
			if sl, ok := c.args[2].(Slice); ok && sl.Len > 0 {
				content = append(content, c.s.obj(sl.ID).slots[sl.Off:sl.Off+sl.Len]...)
			}
			age := c.args[3]
			isDir, _ := c.args[4].(bool)
			var mt Value
			if env.clockSym {
				now := env.symNow(c)
				switch a := age.(type) {
				case *Term:
					mt = mkIntBin(OSub, now, a)
				case uint64:
					mt = mkIntBin(OSub, now, mkIntC(int64(a)))
				}
			} else {
				a, _ := age.(uint64)
				mt = uint64(env.fixedNow/1e9 + unixToInternal - int64(a))
			}
			// an existing file of that (concrete) name is rewritten: new content, new modification time
			if ns, ok := name.(string); ok {
				for _, f := range env.files {
					if fs, ok := f.name.(string); ok && !f.removed && f.dir == dir && fs == ns && !f.isDir && !isDir {
						f.content, f.mtime = content, mt
						return nil
					}
				}
			}
			env.files = append(env.files, &FileNode{dir: dir, name: name, content: content, mtime: mt, isDir: isDir})
			return nil
		}
		in[p+"vFSExists"] = func(c *callCtx) Value {
			dir := strings.TrimSuffix(c.concreteStr(0), "/")
			return c.s.env.find(c, dir, c.args[1]) >= 0
		}
		in[p+"vFSRead"] = func(c *callCtx) Value {
			dir := strings.TrimSuffix(c.concreteStr(0), "/")
			ix := c.s.env.find(c, dir, c.args[1])
			if ix < 0 {
				return Tuple{Slice{}, false}
			}
			ct := append([]Value(nil), c.s.env.files[ix].content...)
			id := c.s.allocMem(ct)
			return Tuple{Slice{ID: id, Len: int32(len(ct)), Cap: int32(len(ct))}, true}
		}
		in[p+"vFSNames"] = func(c *callCtx) Value {
			dir := strings.TrimSuffix(c.concreteStr(0), "/")
			var slots []Value
			for _, f := range c.s.env.files {
				if !f.removed && f.dir == dir {
					slots = append(slots, f.name)
				}
			}
			id := c.s.allocMem(slots)
			return Slice{ID: id, Len: int32(len(slots)), Cap: int32(len(slots))}
		}
		in[p+"vFSOpenFDs"] = func(c *callCtx) Value {
			n := 0
			for _, fd := range c.s.env.fds {
				if fd.std == 0 && !fd.closed && fd.dirPath == "" {
					n++
				}
			}
			return uint64(n)
		}
		in[p+"vFSOpenAttempts"] = func(c *callCtx) Value { return uint64(len(c.s.env.openLog)) }
		in[p+"vFSWriteCount"] = func(c *callCtx) Value { return uint64(c.s.env.writes) }
		in[p+"vFSWriteFaults"] = func(c *callCtx) Value { return uint64(c.s.env.writeFaults) }
		in[p+"vClockMode"] = func(c *callCtx) Value {
			m := c.int(0)
			c.s.env.clockSym = m != 0
			c.s.env.clockFrozen = m == 2
			return nil
		}
		in[p+"vClockCount"] = func(c *callCtx) Value { return uint64(len(c.s.env.readings)) }
		in[p+"vClockReading"] = func(c *callCtx) Value {
			i := c.int(0)
			if i < 0 || i >= len(c.s.env.readings) {
				c.s.unsupported("vClockReading(%d) of %d", i, len(c.s.env.readings))
			}
			return c.s.env.readings[i]
		}
		in[p+"vDrain"] = func(c *callCtx) Value {
			// let every other goroutine run as far as it can: the caller is enabled only when no other is
			if c.s.drainBlocked(c.t) {
				c.block = true
			}
			return nil
		}
		e.visible[p+"vDrain"] = true
		e.yields[p+"vDrain"] = true
		in[p+"vClockAdvance"] = func(c *callCtx) Value {
			c.s.env.fixedNow += int64(c.int(0)) * 1e9 // concrete clock only
			return nil
		}
		in[p+"vClockUnix"] = func(c *callCtx) Value { return uint64(c.s.env.fixedNow / 1e9) }
		in[p+"vClockWindow"] = func(c *callCtx) Value {
			c.s.env.window = c.int(0)
			return nil
		}
		in[p+"vClockStall"] = func(c *callCtx) Value {
			c.s.env.stallIv = c.int(0)
			return nil
		}
		in[p+"vFaults"] = func(c *callCtx) Value {
			c.s.env.faultOpen = c.int(0) != 0
			c.s.env.faultWrite = c.int(1) == 1
			c.s.env.faultWriteAll = c.int(1) == 2
			return nil
		}
	}
}

// splitPath splits a (possibly symbolic) path at its last '/', which must be at a concrete position.
func splitPath(c *callCtx, path Value) (string, Value) {
	b := strBytes(path)
	cut := -1
	for i := len(b) - 1; i >= 0; i-- {
		switch x := b[i].(type) {
		case uint64:
			if x == '/' {
				cut = i
			}
		case *Term:
			// a symbolic byte equal to '/' would name another directory: excluded by harness assumption
			if !c.s.assume(c.w, mkNot(mkEq(x, mkBV('/', 8)))) {
				c.s.finish("INFEASIBLE", "")
			}
		}
		if cut >= 0 {
			break
		}
	}
	if cut < 0 {
		return ".", path
	}
	dirV := mkStr(b[:cut])
	dir, ok := dirV.(string)
	if !ok {
		c.s.unsupported("symbolic directory part in path")
	}
	for strings.HasSuffix(dir, "/") {
		dir = strings.TrimSuffix(dir, "/")
	}
	return dir, mkStr(b[cut+1:])
}

func (e *Env) dirExists(dir string) bool {
	for _, f := range e.files {
		if f.isDir && !f.removed && f.dir == "" && f.name == dir {
			return true
		}
	}
	return false
}

// find returns the index of the live entry dir/name, branching on symbolic name comparisons.
func (e *Env) find(c *callCtx, dir string, name Value) int {
	for i := 0; i < len(c.s.env.files); i++ {
		f := c.s.env.files[i]
		if f.removed || f.dir != dir || (f.isDir && f.dir == "") {
			continue
		}
		eq := strEq(f.name, name)
		if c.s.branch(c.w, eq) {
			return i
		}
	}
	return -1
}

func (e *Env) symNow(c *callCtx) *Term {
	if e.lastNow == nil {
		name := c.s.freshName(fmt.Sprintf("now%d", e.clockN))
		e.clockN++
		v := mkVar(name, SInt)
		c.s.pinReplay(c.w, v)
		c.s.inputs = append(c.s.inputs, InputRec{Name: name, Kind: "lia", Vars: []string{name}})
		if !c.s.assume(c.w, mkAndB(mkCmp(OILe, mkIntC(1<<30), v), mkCmp(OILt, v, mkIntC(1<<40)))) {
			c.s.finish("INFEASIBLE", "")
		}
		e.lastNow = v
	}
	return e.lastNow.(*Term)
}

func (c *callCtx) concreteStr(i int) string {
	switch x := c.args[i].(type) {
	case string:
		return x
	case *SymStr:
		// concretise byte by byte
		b := make([]byte, len(x.B))
		for j, e := range x.B {
			b[j] = byte(c.s.concretize(c.w, e, "path byte"))
		}
		return string(b)
	}
	c.s.unsupported("string argument expected")
	return ""
}

func (e *Env) nowSec() Value {
	if e.clockSym && e.lastNow != nil {
		return e.lastNow
	}
	return uint64(e.fixedNow/1e9 + unixToInternal)
}

type symFormat struct {
	sec *Term
	str *SymStr
}

// formatSym: 14 fresh digit bytes per distinct reading; equal seconds <=> equal text.
func (e *Env) formatSym(s *State, w *Worker, sec *Term, layout string) Value {
	key := "fmt:" + layout
	_ = key
	n := len(layout)
	name := s.freshName("timefmt")
	b := make([]Value, n)
	for i := range b {
		v := mkVar(fmt.Sprintf("%s[%d]", name, i), 8)
		b[i] = v
		s.assume(w, mkAndB(mkCmp(OUle, mkBV('0', 8), v), mkCmp(OUle, v, mkBV('9', 8))))
	}
	str := &SymStr{B: b}
	for _, prev := range s.fmtLog {
		if prev.layout != layout {
			continue
		}
		same := mkEq(prev.sec, sec)
		txt := strEq(prev.str, str)
		tt := toTermBool(txt)
		s.assume(w, mkEq(same, tt))
	}
	s.fmtLog = append(s.fmtLog, fmtRec{layout, sec, str})
	return str
}

type fmtRec struct {
	layout string
	sec    *Term
	str    *SymStr
}

// ---------------------------------------------------------------------------
// encoding/json on a small set of concrete shapes

// jsonMarshalerMethod returns the interpreted MarshalJSON method of a dynamic type, if any.
func (e *Engine) jsonMarshalerMethod(rt *RType) *ssa.Function {
	ms := e.prog.MethodSets.MethodSet(rt.T)
	for i := 0; i < ms.Len(); i++ {
		sel := ms.At(i)
		if sel.Obj().Name() == "MarshalJSON" {
			if sig, ok := sel.Type().(*types.Signature); ok && sig.Params().Len() == 0 && sig.Results().Len() == 2 {
				e.methMu.Lock()
				fn := e.prog.MethodValue(sel)
				e.methMu.Unlock()
				return fn
			}
		}
	}
	return nil
}

func (s *State) jsonMarshal(w *Worker, iv Iface) Value {
	nat, err := s.toNativeAny(w, iv)
	if err != "" {
		return Tuple{Slice{}, s.newError(err)}
	}
	b, e := json.Marshal(nat)
	if e != nil {
		return Tuple{Slice{}, s.newError(e.Error())}
	}
	slots := make([]Value, len(b))
	for i, c := range b {
		slots[i] = uint64(c)
	}
	id := s.allocMem(slots)
	return Tuple{Slice{ID: id, Len: int32(len(b)), Cap: int32(len(b))}, Iface{}}
}

func (s *State) toNativeAny(w *Worker, iv Iface) (interface{}, string) {
	if iv.T == nil {
		return nil, ""
	}
	return s.toNativeTyped(w, iv.V, iv.T.T)
}

func (s *State) toNativeTyped(w *Worker, v Value, t types.Type) (interface{}, string) {
	switch u := t.Underlying().(type) {
	case *types.Basic:
		switch x := v.(type) {
		case bool:
			return x, ""
		case string:
			return x, ""
		case *SymStr:
			b := make([]byte, len(x.B))
			for i, e := range x.B {
				b[i] = byte(s.concretize(w, e, "json string byte"))
			}
			return string(b), ""
		case float64:
			if u.Kind() == types.Float32 {
				return float32(x), ""
			}
			return x, ""
		case uint64:
			if wd, signed, ok := intInfo(u); ok {
				if signed {
					return sext(x, wd), ""
				}
				return x, ""
			}
		case *Term:
			c := s.concretize(w, x, "json number")
			if _, ok := isFloatType(u); ok {
				return math.Float64frombits(c), ""
			}
			if wd, signed, ok := intInfo(u); ok && signed {
				return sext(c, wd), ""
			}
			return c, ""
		}
	case *types.Slice:
		sl := v.(Slice)
		if sl.ID == 0 {
			return nil, ""
		}
		es := slotsOf(u.Elem())
		if es != 1 {
			return nil, "json: engine does not marshal this shape"
		}
		if b, ok := u.Elem().Underlying().(*types.Basic); ok && b.Kind() == types.Uint8 {
			bs := make([]byte, sl.Len)
			for i := range bs {
				bs[i] = byte(s.concretize(w, s.obj(sl.ID).slots[int(sl.Off)+i], "json byte"))
			}
			return bs, ""
		}
		out := make([]interface{}, sl.Len)
		for i := range out {
			ev := s.obj(sl.ID).slots[int(sl.Off)+i]
			var e string
			if _, isI := u.Elem().Underlying().(*types.Interface); isI {
				out[i], e = s.toNativeAny(w, ev.(Iface))
			} else {
				out[i], e = s.toNativeTyped(w, ev, u.Elem())
			}
			if e != "" {
				return nil, e
			}
		}
		return out, ""
	case *types.Map:
		m := v.(MapRef)
		if m.ID == 0 {
			return nil, ""
		}
		out := map[string]interface{}{}
		for _, en := range s.obj(m.ID).entries {
			k, e := s.toNativeTyped(w, en.K, u.Key())
			if e != "" {
				return nil, e
			}
			ks, ok := k.(string)
			if !ok {
				return nil, "json: engine does not marshal non-string map keys"
			}
			var ev interface{}
			if _, isI := u.Elem().Underlying().(*types.Interface); isI {
				ev, e = s.toNativeAny(w, en.V.(Iface))
			} else {
				ev, e = s.toNativeTyped(w, en.V, u.Elem())
			}
			if e != "" {
				return nil, e
			}
			out[ks] = ev
		}
		return out, ""
	case *types.Chan:
		return nil, "json: unsupported type: " + shortTypeString(t)
	case *types.Signature:
		return nil, "json: unsupported type: " + shortTypeString(t)
	case *types.Pointer:
		p := v.(Ptr)
		if p.ID == 0 {
			return nil, ""
		}
		return s.toNativeTyped(w, s.load(p, u.Elem()), u.Elem())
	case *types.Interface:
		return s.toNativeAny(w, v.(Iface))
	}
	return nil, "json: engine does not marshal " + types.TypeString(t, nil)
}

// ---------------------------------------------------------------------------
// runtime and reflect (minimal)

func (e *Engine) addRuntime() {
	in := e.intrinsics
	in["runtime.Caller"] = func(c *callCtx) Value {
		skip := c.int(0)
		file, line, ok := c.s.callerAt(c.t, skip)
		return Tuple{uint64(0), file, uint64(line), ok}
	}
	in["runtime.Callers"] = func(c *callCtx) Value {
		skip := c.int(0)
		sl := c.args[1].(Slice)
		if sl.Len == 0 {
			return uint64(0)
		}
		// Callers counts itself as 0; Caller(0) is the caller of Caller
		n := 0
		o := c.s.wobj(sl.ID)
		for i := 0; i < int(sl.Len); i++ {
			_, _, ok := c.s.callerAt(c.t, skip-1+i)
			if !ok {
				break
			}
			// pc encodes (thread frame depth) as an opaque handle
			depth := len(c.t.frames) - (skip - 1 + i)
			o.slots[int(sl.Off)+i] = uint64(c.s.pcHandle(c.t, skip-1+i)) + uint64(depth)*0
			n++
		}
		return uint64(n)
	}
	in["runtime.CallersFrames"] = func(c *callCtx) Value {
		// returns *runtime.Frames: we hand back a pointer to an object holding the pcs
		sl := c.args[0].(Slice)
		slots := []Value{uint64(0)}
		if sl.Len > 0 {
			slots = append(slots, c.s.obj(sl.ID).slots[sl.Off:sl.Off+sl.Len]...)
		}
		id := c.s.allocMem(slots)
		return Ptr{ID: id}
	}
	in["(*runtime.Frames).Next"] = func(c *callCtx) Value {
		p := ptrArg(c, 0)
		o := c.s.wobj(p.ID)
		pos := int(o.slots[0].(uint64))
		ft := c.fn.Signature.Results().At(0).Type()
		fr := zeroValue(ft).(Agg)
		if pos+1 < len(o.slots) {
			h := o.slots[pos+1].(uint64)
			o.slots[0] = uint64(pos + 1)
			file, line, fn := c.s.eng.pcInfo(h)
			st := ft.Underlying().(*types.Struct)
			for i := 0; i < st.NumFields(); i++ {
				off := fieldOffset(st, i)
				switch st.Field(i).Name() {
				case "PC":
					fr[off] = h
				case "Function":
					fr[off] = fn
				case "File":
					fr[off] = file
				case "Line":
					fr[off] = uint64(line)
				}
			}
			return Tuple{fr, pos+2 < len(o.slots)}
		}
		return Tuple{fr, false}
	}
	in["runtime.GOMAXPROCS"] = func(c *callCtx) Value { return uint64(1) }
}

// callerAt resolves runtime.Caller(skip) for a call made by the top frame of t.
func (s *State) callerAt(t *Thread, skip int) (string, int, bool) {
	// frames: [..., F2, F1, F0] where F0 called runtime.Caller. Caller(0) = position of the call in F0.
	idx := len(t.frames) - 1 - skip
	if idx < 0 {
		return "", 0, false
	}
	fr := t.frames[idx]
	var pos ssa.Instruction
	if skip == 0 {
		pos = fr.block.Instrs[fr.pc]
	} else {
		// the instruction in fr that called the next frame: pc was already advanced past it,
		// except for deferred calls (RunDefers keeps pc) and panics
		callee := t.frames[idx+1]
		if callee.callSite != nil {
			pos = callee.callSite
		}
	}
	if pos == nil {
		return "", 0, false
	}
	p := s.eng.prog.Fset.Position(pos.Pos())
	if !p.IsValid() {
		// synthetic wrapper: no position
		return "", 0, true
	}
	return p.Filename, p.Line, true
}

func (s *State) pcHandle(t *Thread, skip int) int {
	idx := len(t.frames) - 1 - skip
	fr := t.frames[idx]
	var pos ssa.Instruction
	if skip == 0 {
		pos = fr.block.Instrs[fr.pc]
	} else {
		pos = t.frames[idx+1].callSite
	}
	return s.eng.internPC(pos, fr.fn)
}

type pcRec struct {
	file string
	line int
	fn   string
}

func (e *Engine) internPC(in ssa.Instruction, fn *ssa.Function) int {
	e.mu.Lock()
	defer e.mu.Unlock()
	if e.pcIdx == nil {
		e.pcIdx = map[ssa.Instruction]int{}
	}
	if h, ok := e.pcIdx[in]; ok {
		return h
	}
	p := e.prog.Fset.Position(in.Pos())
	e.pcs = append(e.pcs, pcRec{p.Filename, p.Line, fn.String()})
	h := 0x400000 + 5*len(e.pcs) // call sites are spaced like 5-byte call instructions (densest packing)
	e.pcIdx[in] = h
	return h
}

func (e *Engine) pcInfo(h uint64) (string, int, string) {
	e.mu.Lock()
	defer e.mu.Unlock()
	i := (int(h)-0x400000)/5 - 1
	if i < 0 || i >= len(e.pcs) {
		return "", 0, ""
	}
	r := e.pcs[i]
	return r.file, r.line, r.fn
}

func (e *Engine) addReflect() {
	in := e.intrinsics
	// reflect.TypeFor[T]() -> reflect.Type (interface) holding a NativeVal{*RType}
	rtIface := func(s *State, t types.Type) Value {
		return Iface{T: s.eng.reflectRtype(), V: NativeVal{rtypeOf(t)}}
	}
	in["reflect.TypeFor"] = func(c *callCtx) Value {
		targs := c.fn.TypeArgs()
		return rtIface(c.s, targs[0])
	}
	in["reflect.TypeOf"] = func(c *callCtx) Value {
		iv := c.args[0].(Iface)
		if iv.T == nil {
			return Iface{}
		}
		return rtIface(c.s, iv.T.T)
	}
	rt := func(c *callCtx) *RType { return c.args[0].(NativeVal).V.(*RType) }
	in["(*reflect.rtype).Kind"] = func(c *callCtx) Value { return uint64(reflectKind(rt(c).T)) }
	in["(*reflect.rtype).String"] = func(c *callCtx) Value { return rt(c).Str }
	e.addReflectShim()
	in["(*reflect.rtype).Name"] = func(c *callCtx) Value {
		if n, ok := rt(c).T.(*types.Named); ok {
			return n.Obj().Name()
		}
		return ""
	}
}

func (e *Engine) reflectRtype() *RType {
	e.mu.Lock()
	defer e.mu.Unlock()
	if e.rtypePtr == nil {
		rp := e.prog.ImportedPackage("reflect")
		e.rtypePtr = rtypeOf(types.NewPointer(rp.Type("rtype").Type()))
	}
	return e.rtypePtr
}

func reflectKind(t types.Type) int {
	switch u := t.Underlying().(type) {
	case *types.Basic:
		switch u.Kind() {
		case types.Bool:
			return 1
		case types.Int:
			return 2
		case types.Int8:
			return 3
		case types.Int16:
			return 4
		case types.Int32:
			return 5
		case types.Int64:
			return 6
		case types.Uint:
			return 7
		case types.Uint8:
			return 8
		case types.Uint16:
			return 9
		case types.Uint32:
			return 10
		case types.Uint64:
			return 11
		case types.Uintptr:
			return 12
		case types.Float32:
			return 13
		case types.Float64:
			return 14
		case types.String:
			return 24
		case types.UnsafePointer:
			return 26
		}
	case *types.Array:
		return 17
	case *types.Chan:
		return 18
	case *types.Signature:
		return 19
	case *types.Interface:
		return 20
	case *types.Map:
		return 21
	case *types.Pointer:
		return 22
	case *types.Slice:
		return 23
	case *types.Struct:
		return 25
	}
	return 0
}

// otherInside reports whether a thread other than t has a frame of a function whose name contains sub.
func (s *State) otherInside(t *Thread, sub string) bool {
	for _, u := range s.threads {
		if u == t || u.status != TRunnable {
			continue
		}
		for _, fr := range u.frames {
			if strings.Contains(fr.fn.String(), sub) {
				return true
			}
		}
	}
	return false
}

// drainBlocked: some other thread (not itself waiting in vDrain) can still make progress.
func (s *State) drainBlocked(self *Thread) bool {
	for _, u := range s.threads {
		if u == self || u.status != TRunnable {
			continue
		}
		if in, ok := pendingInstr(u).(*ssa.Call); ok {
			if f := in.Call.StaticCallee(); f != nil && strings.HasSuffix(f.Name(), "vDrain") {
				continue
			}
		}
		if s.enabled(u) {
			return true
		}
	}
	return false
}

// shortTypeString renders a type the way package reflect does (package name, not import path).
func shortTypeString(t types.Type) string {
	return types.TypeString(t, func(p *types.Package) string { return p.Name() })
}
