package main

import (
	"fmt"
	"go/constant"
	"go/token"
	"go/types"
	"math"

	"golang.org/x/tools/go/ssa"
)

func fpIsNaN(bits uint64) bool { return math.IsNaN(math.Float64frombits(bits)) }
func fpIsInf(bits uint64) bool { return math.IsInf(math.Float64frombits(bits), 0) }
func f64(bits uint64) float64  { return math.Float64frombits(bits) }
func f32to64bits(b uint32) uint64 {
	return math.Float64bits(float64(math.Float32frombits(b)))
}
func f64to32bits(b uint64) uint32 {
	return math.Float32bits(float32(math.Float64frombits(b)))
}

// constValue converts an ssa.Const to an interpreter value.
func constValue(c *ssa.Const) Value {
	t := c.Type()
	if c.Value == nil {
		return zeroValue(t)
	}
	switch u := t.Underlying().(type) {
	case *types.Basic:
		switch {
		case u.Info()&types.IsBoolean != 0:
			return constant.BoolVal(c.Value)
		case u.Info()&types.IsInteger != 0:
			w, _, _ := intInfo(u)
			if i, ok := constant.Int64Val(constant.ToInt(c.Value)); ok {
				return uint64(i) & mask(w)
			}
			ui, _ := constant.Uint64Val(constant.ToInt(c.Value))
			return ui & mask(w)
		case u.Info()&types.IsFloat != 0:
			f, _ := constant.Float64Val(c.Value)
			if u.Kind() == types.Float32 {
				f = float64(float32(f))
			}
			return f
		case u.Info()&types.IsString != 0:
			return constant.StringVal(c.Value)
		}
	case *types.Interface:
		// constant converted to interface? not produced by go/ssa
	}
	panic(fmt.Sprintf("constValue: %s of type %s", c, t))
}

// ---------------------------------------------------------------------------
// equality

func (s *State) eqValue(a, b Value) Value {
	switch x := a.(type) {
	case bool:
		switch y := b.(type) {
		case bool:
			return x == y
		case *Term:
			return mkEq(mkBool(x), y)
		}
	case uint64:
		switch y := b.(type) {
		case uint64:
			return x == y
		case *Term:
			return mkEq(toTermLike(x, y, false), y)
		}
	case float64:
		switch y := b.(type) {
		case float64:
			return x == y
		case *Term:
			return mkUn2(OFpEq, mkBV(math.Float64bits(x), 64), y)
		}
	case *Term:
		switch y := b.(type) {
		case *Term:
			return mkEq(x, y)
		case float64:
			return mkUn2(OFpEq, x, mkBV(math.Float64bits(y), 64))
		default:
			return mkEq(x, toTermLike(b, x, false))
		}
	case string:
		if y, ok := b.(string); ok {
			return x == y
		}
		return strEq(a, b)
	case *SymStr:
		return strEq(a, b)
	case Ptr:
		switch y := b.(type) {
		case Ptr:
			return x == y
		case StrPtr:
			return false
		}
	case StrPtr:
		if y, ok := b.(StrPtr); ok {
			return x.Off == y.Off && s.eqValue(x.S, y.S) == true
		}
		return false
	case Slice:
		y := b.(Slice)
		return x.ID == y.ID && x.Off == y.Off && x.Len == y.Len
	case MapRef:
		return x == b.(MapRef)
	case ChanRef:
		return x == b.(ChanRef)
	case *Closure:
		y, _ := b.(*Closure)
		return x == y
	case Iface:
		y, ok := b.(Iface)
		if !ok {
			return false
		}
		if x.T != y.T {
			return false
		}
		if x.T == nil {
			return true
		}
		return s.eqValue(x.V, y.V)
	case Agg:
		y := b.(Agg)
		var acc Value = true
		for i := range x {
			acc = andValue(acc, s.eqValue(x[i], y[i]))
			if acc == false {
				return false
			}
		}
		return acc
	case nil:
		return b == nil
	case NativeVal:
		y, ok := b.(NativeVal)
		return ok && x.V == y.V
	}
	s.unsupported("eqValue %T vs %T", a, b)
	return false
}

func mkUn2(op Op, a, b *Term) *Term { return intern(op, SBool, a, b, nil, 0, "") }

func andValue(a, b Value) Value {
	if x, ok := a.(bool); ok {
		if !x {
			return false
		}
		return b
	}
	if y, ok := b.(bool); ok {
		if !y {
			return false
		}
		return a
	}
	return mkAndB(a.(*Term), b.(*Term))
}

func orValue(a, b Value) Value {
	if x, ok := a.(bool); ok {
		if x {
			return true
		}
		return b
	}
	if y, ok := b.(bool); ok {
		if y {
			return true
		}
		return a
	}
	return mkOrB(a.(*Term), b.(*Term))
}

func notValue(a Value) Value {
	if x, ok := a.(bool); ok {
		return !x
	}
	return mkNot(a.(*Term))
}

func strEq(a, b Value) Value {
	if strLen(a) != strLen(b) {
		return false
	}
	ab, bb := strBytes(a), strBytes(b)
	var acc Value = true
	for i := range ab {
		var e Value
		x, xc := ab[i].(uint64)
		y, yc := bb[i].(uint64)
		if xc && yc {
			e = x == y
		} else {
			e = mkEq(toTermBV(ab[i], 8), toTermBV(bb[i], 8))
		}
		acc = andValue(acc, e)
		if acc == false {
			return false
		}
	}
	return acc
}

// strLess: lexicographic a < b
func strLess(a, b Value) Value {
	ab, bb := strBytes(a), strBytes(b)
	n := len(ab)
	if len(bb) < n {
		n = len(bb)
	}
	// result = OR_i (prefix equal up to i ∧ a[i] < b[i]) ∨ (all n equal ∧ len(a) < len(b))
	var res Value = len(ab) < len(bb)
	for i := n - 1; i >= 0; i-- {
		x, xc := ab[i].(uint64)
		y, yc := bb[i].(uint64)
		var lt, eq Value
		if xc && yc {
			lt, eq = x < y, x == y
		} else {
			tx, ty := toTermBV(ab[i], 8), toTermBV(bb[i], 8)
			lt, eq = Value(mkCmp(OUlt, tx, ty)), Value(mkEq(tx, ty))
		}
		res = orValue(lt, andValue(eq, res))
	}
	return res
}

// ---------------------------------------------------------------------------
// binary operations

func (s *State) binop(op token.Token, x, y Value, t types.Type, ty types.Type) Value {
	switch op {
	case token.EQL:
		return s.eqValue(x, y)
	case token.NEQ:
		return notValue(s.eqValue(x, y))
	}
	if isStringType(t) {
		switch op {
		case token.ADD:
			return strConcat(x, y)
		case token.LSS:
			return strLess(x, y)
		case token.GTR:
			return strLess(y, x)
		case token.LEQ:
			return notValue(strLess(y, x))
		case token.GEQ:
			return notValue(strLess(x, y))
		}
	}
	if w, signed, ok := intInfo(t); ok {
		return s.intBinop(op, x, y, w, signed, ty)
	}
	if _, ok := isFloatType(t); ok {
		return s.floatBinop(op, x, y, t)
	}
	s.unsupported("binop %s on %s", op, t)
	return nil
}

func (s *State) floatBinop(op token.Token, x, y Value, t types.Type) Value {
	fx, xc := x.(float64)
	fy, yc := y.(float64)
	if xc && yc {
		var r float64
		switch op {
		case token.ADD:
			r = fx + fy
		case token.SUB:
			r = fx - fy
		case token.MUL:
			r = fx * fy
		case token.QUO:
			r = fx / fy
		case token.LSS:
			return fx < fy
		case token.LEQ:
			return fx <= fy
		case token.GTR:
			return fx > fy
		case token.GEQ:
			return fx >= fy
		default:
			s.unsupported("float op %s", op)
		}
		if w, _ := isFloatType(t); w == 32 {
			r = float64(float32(r))
		}
		return r
	}
	w, _ := isFloatType(t)
	switch op {
	case token.ADD, token.SUB, token.MUL, token.QUO:
		// arithmetic on a symbolic float: class split + one finite representative (stated under-approximation)
		cx, cy := s.floatConc(x), s.floatConc(y)
		return s.floatBinop(op, cx, cy, t)
	}
	if w != 64 {
		x, y = s.f32to64(x), s.f32to64(y)
	}
	lift := func(v Value) *Term {
		if f, ok := v.(float64); ok {
			return mkBV(math.Float64bits(f), 64)
		}
		return v.(*Term)
	}
	tx, tyy := lift(x), lift(y)
	switch op {
	case token.LSS:
		return mkUn2(OFpLt, tx, tyy)
	case token.LEQ:
		return mkUn2(OFpLe, tx, tyy)
	case token.GTR:
		return mkUn2(OFpLt, tyy, tx)
	case token.GEQ:
		return mkUn2(OFpLe, tyy, tx)
	}
	s.unsupported("symbolic float arithmetic %s", op)
	return nil
}

func (s *State) intBinop(op token.Token, x, y Value, w Sort, signed bool, ty types.Type) Value {
	cx, xc := x.(uint64)
	cy, yc := y.(uint64)
	m := mask(w)
	if xc && yc {
		switch op {
		case token.ADD:
			return (cx + cy) & m
		case token.SUB:
			return (cx - cy) & m
		case token.MUL:
			return (cx * cy) & m
		case token.QUO:
			if signed {
				v, _ := evalBin(OSDiv, w, cx, cy)
				return v
			}
			return cx / cy
		case token.REM:
			if signed {
				v, _ := evalBin(OSRem, w, cx, cy)
				return v
			}
			return cx % cy
		case token.AND:
			return cx & cy
		case token.OR:
			return cx | cy
		case token.XOR:
			return cx ^ cy
		case token.AND_NOT:
			return cx &^ cy
		case token.SHL:
			if cy >= uint64(w) {
				return uint64(0)
			}
			return (cx << cy) & m
		case token.SHR:
			if signed {
				v, _ := evalBin(OAShr, w, cx, cy)
				return v
			}
			if cy >= uint64(w) {
				return uint64(0)
			}
			return cx >> cy
		case token.LSS:
			if signed {
				return sext(cx, w) < sext(cy, w)
			}
			return cx < cy
		case token.LEQ:
			if signed {
				return sext(cx, w) <= sext(cy, w)
			}
			return cx <= cy
		case token.GTR:
			if signed {
				return sext(cx, w) > sext(cy, w)
			}
			return cx > cy
		case token.GEQ:
			if signed {
				return sext(cx, w) >= sext(cy, w)
			}
			return cx >= cy
		}
		s.unsupported("int op %s", op)
	}
	// symbolic
	var tx, tyy *Term
	isLIA := false
	if t, ok := x.(*Term); ok && t.Sort == SInt {
		isLIA = true
	}
	if t, ok := y.(*Term); ok && t.Sort == SInt {
		isLIA = true
	}
	if isLIA {
		lift := func(v Value) *Term {
			switch a := v.(type) {
			case *Term:
				if a.Sort != SInt {
					s.abort("ERROR", "mixing Int-encoded and bit-vector values")
				}
				return a
			case uint64:
				return mkIntC(sext(a, w))
			}
			panic("lia lift")
		}
		tx, tyy = lift(x), lift(y)
		switch op {
		case token.ADD:
			return mkIntBin(OAdd, tx, tyy)
		case token.SUB:
			return mkIntBin(OSub, tx, tyy)
		case token.MUL:
			if !tx.IsConst() && !tyy.IsConst() {
				s.abort("ERROR", "nonlinear Int multiplication")
			}
			return mkIntBin(OMul, tx, tyy)
		case token.QUO, token.REM:
			if !tyy.IsConst() || int64(tyy.Imm) <= 0 {
				s.abort("ERROR", "Int division by non-constant")
			}
			// Go truncates toward zero; values are assumed non-negative in the clock encoding
			if op == token.QUO {
				return mkIntBin(OIDiv, tx, tyy)
			}
			return mkIntBin(OIMod, tx, tyy)
		case token.LSS:
			return mkCmp(OILt, tx, tyy)
		case token.LEQ:
			return mkCmp(OILe, tx, tyy)
		case token.GTR:
			return mkCmp(OILt, tyy, tx)
		case token.GEQ:
			return mkCmp(OILe, tyy, tx)
		}
		s.abort("ERROR", "Int-encoded op %s", op)
	}
	tx = toTermBV(x, w)
	switch op {
	case token.SHL, token.SHR:
		// shift count may have another width
		cw := w
		if ty != nil {
			if w2, _, ok := intInfo(ty); ok {
				cw = w2
			}
		}
		cnt := toTermBV(y, cw)
		var c2 *Term
		var big *Term = tFalse
		switch {
		case cw == w:
			c2 = cnt
		case cw < w:
			c2 = mkZExt(cnt, w)
		default:
			c2 = mkExtract(cnt, 0, w)
			big = mkCmp(OUle, mkBV(uint64(w), cw), cnt)
		}
		var r *Term
		if op == token.SHL {
			r = mkBin(OShl, tx, c2)
			return mkIte(big, mkBV(0, w), r)
		}
		if signed {
			r = mkBin(OAShr, tx, c2)
			return mkIte(big, mkBin(OAShr, tx, mkBV(uint64(w)-1, w)), r)
		}
		r = mkBin(OLShr, tx, c2)
		return mkIte(big, mkBV(0, w), r)
	}
	tyy = toTermBV(y, w)
	switch op {
	case token.ADD:
		return mkBin(OAdd, tx, tyy)
	case token.SUB:
		return mkBin(OSub, tx, tyy)
	case token.MUL:
		return mkBin(OMul, tx, tyy)
	case token.QUO:
		if signed {
			return mkBin(OSDiv, tx, tyy)
		}
		return mkBin(OUDiv, tx, tyy)
	case token.REM:
		if signed {
			return mkBin(OSRem, tx, tyy)
		}
		return mkBin(OURem, tx, tyy)
	case token.AND:
		return mkBin(OAnd, tx, tyy)
	case token.OR:
		return mkBin(OOr, tx, tyy)
	case token.XOR:
		return mkBin(OXor, tx, tyy)
	case token.AND_NOT:
		return mkBin(OAnd, tx, mkNot(tyy))
	case token.LSS:
		if signed {
			return mkCmp(OSlt, tx, tyy)
		}
		return mkCmp(OUlt, tx, tyy)
	case token.LEQ:
		if signed {
			return mkCmp(OSle, tx, tyy)
		}
		return mkCmp(OUle, tx, tyy)
	case token.GTR:
		if signed {
			return mkCmp(OSlt, tyy, tx)
		}
		return mkCmp(OUlt, tyy, tx)
	case token.GEQ:
		if signed {
			return mkCmp(OSle, tyy, tx)
		}
		return mkCmp(OUle, tyy, tx)
	}
	s.unsupported("symbolic int op %s", op)
	return nil
}

// ---------------------------------------------------------------------------
// unary operations (except load and receive)

func (s *State) unop(op token.Token, x Value, t types.Type) Value {
	switch op {
	case token.NOT:
		return notValue(x)
	case token.SUB:
		if w, _, ok := intInfo(t); ok {
			if c, ok := x.(uint64); ok {
				return (-c) & mask(w)
			}
			return mkNeg(x.(*Term))
		}
		if f, ok := x.(float64); ok {
			return -f
		}
	case token.XOR:
		if w, _, ok := intInfo(t); ok {
			if c, ok := x.(uint64); ok {
				return (^c) & mask(w)
			}
			return mkNot(x.(*Term))
		}
	}
	s.unsupported("unop %s on %s (%T)", op, t, x)
	return nil
}

// ---------------------------------------------------------------------------
// conversions

func (s *State) convert(w *Worker, x Value, from, to types.Type) Value {
	uf, ut := from.Underlying(), to.Underlying()
	// integer -> integer
	if fw, fs, ok := intInfo(uf); ok {
		if tw, _, ok := intInfo(ut); ok {
			if c, ok := x.(uint64); ok {
				if fs {
					return uint64(sext(c, fw)) & mask(tw)
				}
				return c & mask(tw)
			}
			t := x.(*Term)
			if t.Sort == SInt {
				return t
			}
			switch {
			case tw == fw:
				return t
			case tw < fw:
				return mkExtract(t, 0, tw)
			case fs:
				return mkSExt(t, tw)
			default:
				return mkZExt(t, tw)
			}
		}
		if tw, ok := isFloatType(ut); ok {
			c := s.concretize(w, x, "int->float conversion")
			var f float64
			if fs {
				f = float64(sext(c, fw))
			} else {
				f = float64(c)
			}
			if tw == 32 {
				f = float64(float32(f))
			}
			return f
		}
		if isStringType(ut) {
			c := s.concretize(w, x, "int->string conversion")
			return string(rune(sext(c, fw)))
		}
	}
	if fw, ok := isFloatType(uf); ok {
		if tw, ok := isFloatType(ut); ok {
			if f, ok := x.(float64); ok {
				if tw == 32 {
					return float64(float32(f))
				}
				return f
			}
			t := x.(*Term)
			switch {
			case fw == tw:
				return t
			case fw == 32:
				return mkUn(OF32to64, 64, t)
			default:
				return mkUn(OF64to32, 32, t)
			}
		}
		if tw, ts, ok := intInfo(ut); ok {
			f, ok := x.(float64)
			if !ok {
				t := x.(*Term)
				if fw == 32 {
					t = mkUn(OF32to64, 64, t)
				}
				f = s.floatClassSplit(w, t) // class split + one finite representative
			}
			if ts {
				return uint64(int64(f)) & mask(tw)
			}
			return uint64(f) & mask(tw)
		}
	}
	if isStringType(uf) {
		if sl, ok := ut.(*types.Slice); ok {
			b := strBytes(x)
			if eb, ok := sl.Elem().Underlying().(*types.Basic); ok && eb.Kind() == types.Int32 {
				str, ok := x.(string)
				var slots []Value
				if !ok {
					// symbolic bytes: ASCII only (a byte >= 0x80 is outside what the engine converts)
					for _, bv := range b {
						switch c := bv.(type) {
						case uint64:
							if c >= 0x80 {
								s.unsupported("[]rune(symbolic string) with non-ASCII bytes")
							}
							slots = append(slots, c)
						case *Term:
							if !s.branch(w, mkCmp(OUlt, c, mkBV(0x80, 8))) {
								s.unsupported("[]rune(symbolic string) with non-ASCII bytes")
							}
							slots = append(slots, mkZExt(c, 32))
						}
					}
					id := s.allocMem(slots)
					return Slice{ID: id, Len: int32(len(slots)), Cap: int32(len(slots))}
				}
				rs := []rune(str)
				slots = make([]Value, len(rs))
				for i, r := range rs {
					slots[i] = uint64(uint32(r))
				}
				id := s.allocMem(slots)
				return Slice{ID: id, Len: int32(len(rs)), Cap: int32(len(rs))}
			}
			slots := make([]Value, len(b))
			copy(slots, b)
			id := s.allocMem(slots)
			return Slice{ID: id, Len: int32(len(b)), Cap: int32(len(b))}
		}
		if isStringType(ut) {
			return x
		}
	}
	if sl, ok := uf.(*types.Slice); ok && isStringType(ut) {
		v := x.(Slice)
		if v.ID == 0 {
			return ""
		}
		o := s.obj(v.ID)
		if eb, ok := sl.Elem().Underlying().(*types.Basic); ok && eb.Kind() == types.Int32 {
			var out []Value
			for i := 0; i < int(v.Len); i++ {
				switch c := o.slots[int(v.Off)+i].(type) {
				case uint64:
					for _, bb := range []byte(string(rune(int32(c)))) {
						out = append(out, uint64(bb))
					}
				case *Term:
					// symbolic rune: ASCII only
					if !s.branch(w, mkCmp(OUlt, c, mkBV(0x80, 32))) {
						s.unsupported("string(symbolic []rune) with non-ASCII runes")
					}
					out = append(out, mkExtract(c, 0, 8))
				}
			}
			return mkStr(out)
		}
		return mkStr(o.slots[v.Off : v.Off+v.Len])
	}
	// pointer <-> unsafe.Pointer, and identical-underlying conversions
	switch x.(type) {
	case Ptr, StrPtr:
		return x
	}
	if _, ok := ut.(*types.Basic); ok {
		if _, ok := uf.(*types.Pointer); ok {
			return x
		}
	}
	s.unsupported("convert %s -> %s (%T)", from, to, x)
	return nil
}

// floatConc concretises a symbolic float (bit pattern) by class split; concrete floats pass through.
func (s *State) floatConc(v Value) Value {
	if t, ok := v.(*Term); ok {
		return s.floatClassSplit(s.curWorker, t)
	}
	return v
}

func (s *State) f32to64(v Value) Value {
	if t, ok := v.(*Term); ok && t.Sort == 32 {
		return mkUn(OF32to64, 64, t)
	}
	return v
}
