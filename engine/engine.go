package main

import (
	"strconv"
	"fmt"
	"go/types"
	"os"
	"path/filepath"
	"sort"
	"strings"
	"sync"
	"sync/atomic"
	"time"

	"golang.org/x/tools/go/packages"
	"golang.org/x/tools/go/ssa"
	"golang.org/x/tools/go/ssa/ssautil"
)

type HarnessOpts struct {
	LoopBound int
	Preempt   int
	SchedAll  bool
	ChanCap   int // if > 0, cap for every make(chan, n) (the code never reads the capacity)
	MapOrder  int // 0 insertion order, 1 insertion+reverse, 2 all permutations up to 3 entries
	PoolAny   bool
	GlobalRace bool // accesses to package-level variables are scheduling points
	CallRace   bool // calls of library functions are scheduling points
	ExprTable bool // expr.Parse answers from the harness table (C15)
	Tier      int
}

type Engine struct {
	prog     *ssa.Program
	pkgs     []*ssa.Package
	logPkg   *ssa.Package
	exprPkg  *ssa.Package
	fset     interface{}
	methMu   sync.Mutex
	repoDir  string
	overlays map[string][]byte

	intrinsics    map[string]Intrinsic
	redirects     map[string]*ssa.Function
	visible       map[string]bool
	yields        map[string]bool
	enabledChecks map[string]func(s *State, args []Value) bool
	initAllow     map[string]bool

	errStringPtrType *RType
	baseGlobals      map[*ssa.Global]int32
	globalIDs        map[int32]bool // object ids of package-level variables of packages log and expr
	initPhase        bool
	template         *State
	concCap          int
	divergeBound     int

	tier    int
	seed    int64
	workers int
	known   map[string]KnownFinding

	// per-run
	mu         sync.Mutex
	stack      []*State
	active     int32
	cond       *sync.Cond
	results    *RunResult
	maxPaths   int64
	deadline   time.Time
	stopped    int32
	funcsSeen  sync.Map
	intrinSeen sync.Map
	pcIdx      map[ssa.Instruction]int
	pcs        []pcRec
	rtypePtr   *RType
	engineOnly map[string]bool
	replay     *ReplayDoc
	traceCalls bool
}

type KnownFinding struct {
	Property string `json:"property"`
	ID       string `json:"id"`
	What     string `json:"what"`
	Status   string `json:"status"` // "open" or "fixed: ..."
}

type RunResult struct {
	Harness    string
	Paths      int64
	Outcomes   map[string]int64
	Reached    map[string]int64
	Violations []*Violation
	KnownSeen  map[string]*Violation
	Inconcl    []string
	Samples    []PathSample
	Steps      int64
	Unknown    int64
	sampleEvery int64
}

type PathSample struct {
	Inputs   []InputRec    `json:"inputs"`
	Choices  []ChoiceRec   `json:"choices,omitempty"`
	Outcome  string        `json:"outcome"`
	Reached  []string      `json:"reached,omitempty"`
	Observed []ObservedRec `json:"observed,omitempty"`
	model    Model
}

type ObservedRec struct {
	Label string `json:"label"`
	Val   string `json:"val"`
}

type Worker struct {
	eng    *Engine
	solver *Solver
	cross  []*Solver // thorough tier: z3 5.1.0 and cvc5 re-decide every verdict query
	id     int
}

type crossStats struct {
	checked, agreed, disagreed, unknown int64
	modelsValidated, modelBad          int64
}

var xstats crossStats

// crossCheck re-decides a verdict query on the other installed solvers.
func (w *Worker) crossCheck(conj []*Term, res int, what string) {
	for _, xs := range w.cross {
		r := xs.CheckOnly(conj)
		atomic.AddInt64(&xstats.checked, 1)
		switch {
		case r == ResUnknown:
			atomic.AddInt64(&xstats.unknown, 1)
		case r == res:
			atomic.AddInt64(&xstats.agreed, 1)
		default:
			atomic.AddInt64(&xstats.disagreed, 1)
			w.eng.noteInconclusive(fmt.Sprintf("solver disagreement on %s: z3 4.8.12 says %d, %s says %d", what, res, xs.name, r))
		}
	}
}

func (w *Worker) push(s *State) {
	e := w.eng
	e.mu.Lock()
	e.stack = append(e.stack, s)
	e.mu.Unlock()
	e.cond.Signal()
}

func loadEngine(repo string, ov map[string][]byte) (*Engine, error) {
	e := &Engine{repoDir: repo, concCap: 300, divergeBound: 400000}
	cfg := &packages.Config{
		Mode:    packages.LoadAllSyntax,
		Dir:     repo,
		Overlay: ov,
		Env:     append(os.Environ(), "GOFLAGS=-mod=mod", "GOPROXY=off"),
	}
	pkgs, err := packages.Load(cfg, ".", "./expr")
	if err != nil {
		return nil, err
	}
	nerr := 0
	packages.Visit(pkgs, nil, func(p *packages.Package) {
		for _, er := range p.Errors {
			fmt.Fprintf(os.Stderr, "load error: %v\n", er)
			nerr++
		}
	})
	if nerr > 0 {
		return nil, fmt.Errorf("%d package load errors", nerr)
	}
	prog, spkgs := ssautil.AllPackages(pkgs, ssa.InstantiateGenerics)
	prog.Build()
	e.prog = prog
	e.pkgs = spkgs
	for _, p := range spkgs {
		if p == nil {
			continue
		}
		switch p.Pkg.Path() {
		case "github.com/go-spring/log":
			e.logPkg = p
		case "github.com/go-spring/log/expr":
			e.exprPkg = p
		}
	}
	if e.logPkg == nil {
		return nil, fmt.Errorf("package log not found")
	}
	e.baseGlobals = map[*ssa.Global]int32{}
	e.globalIDs = map[int32]bool{}
	e.setupIntrinsics()
	for real, model := range map[string]string{"sort.Slice": "vmSortSlice", logPath + "/expr.Parse": "vmExprParse", "path/filepath.WalkDir": "vmWalkDir"} {
		if f := e.logPkg.Func(model); f != nil {
			e.redirects[real] = f
		}
	}
	// *errors.errorString
	errPkg := prog.ImportedPackage("errors")
	if errPkg == nil {
		return nil, fmt.Errorf("package errors not loaded")
	}
	est := errPkg.Type("errorString")
	e.errStringPtrType = rtypeOf(types.NewPointer(est.Type()))
	return e, nil
}

func (e *Engine) pkgFunc(pkg *ssa.Package, name string) *ssa.Function {
	if pkg == nil {
		return nil
	}
	return pkg.Func(name)
}

// runInit executes the package initialisers (allow-listed) once and freezes the template state.
func (e *Engine) runInit() error {
	s := &State{eng: e, known: map[*Term]bool{}, model: Model{}, symSeq: map[string]int{},
		reached: map[string]bool{}, knownIn: map[string]bool{}, env: newEnv()}
	s.opts = HarnessOpts{LoopBound: 1 << 30, Tier: e.tier}
	s.gen = atomic.AddUint32(&genCounter, 1)
	s.heap = []*Object{{kind: KMem}} // object 0 = nil
	e.initPhase = true
	w := &Worker{eng: e}
	sv, err := newSolver("z3")
	if err != nil {
		return err
	}
	w.solver = sv
	defer sv.Close()
	e.cond = sync.NewCond(&e.mu)
	e.results = &RunResult{Outcomes: map[string]int64{}, Reached: map[string]int64{}, KnownSeen: map[string]*Violation{}}
	for _, p := range []*ssa.Package{e.logPkg, e.exprPkg} {
		if p == nil {
			continue
		}
		initFn := p.Func("init")
		t := &Thread{id: 0}
		s.threads = []*Thread{t}
		s.cur = 0
		s.done = false
		t.frames = []*Frame{s.newFrame(initFn, nil, nil, -1)}
		w.run(s)
		if s.outcome != "OK" {
			return fmt.Errorf("init of %s: %s: %s", p.Pkg.Path(), s.outcome, s.detail)
		}
	}
	e.initPhase = false
	if len(e.stack) != 0 {
		return fmt.Errorf("init forked")
	}
	s.threads = nil
	s.done = false
	s.outcome = ""
	s.steps = 0
	s.trace = nil
	e.template = s
	return nil
}

func (e *Engine) initGlobal(s *State, g *ssa.Global, p Ptr) {
	if g.Pkg != nil && g.Pkg.Pkg.Path() == "os" {
		switch g.Name() {
		case "Stdin", "Stdout", "Stderr":
			fd := map[string]int{"Stdin": 0, "Stdout": 1, "Stderr": 2}[g.Name()]
			s.wobj(p.ID).slots[0] = s.env.stdFile(s, fd)
		}
	}
}

func (s *State) finish(outcome, detail string) {
	if s.done {
		return
	}
	s.done = true
	s.outcome = outcome
	s.detail = detail
}

// run executes a state to completion (forked states are pushed on the engine stack).
func (w *Worker) run(s *State) {
	defer func() {
		if r := recover(); r != nil {
			switch a := r.(type) {
			case engineAbort:
				s.finish(a.outcome, a.detail)
			case blockSignal:
				s.finish("BLOCKED", "intrinsic cannot proceed: "+s.blockedDetail())
			default:
				if os.Getenv("SYMGO_CRASH") != "" {
					panic(r)
				}
				s.finish("ERROR", fmt.Sprintf("engine fault: %v%s", r, s.stackString()))
			}
		}
	}()
	maxSteps := int64(20_000_000)
	s.curWorker = w
	for !s.done {
		if len(s.pending) == 0 {
			s.made = s.made[:0]
			s.symUndo = s.symUndo[:0]
			s.choicesMark, s.rawMark, s.inputsMark = len(s.choices), len(s.rawChoices), len(s.inputs)
		}
		t := s.threads[s.cur]
		if t.status == TDone {
			if t.id == 0 {
				s.finish("OK", "")
				break
			}
			if !s.schedule(w, t, true) {
				break
			}
			continue
		}
		if t.panicking && (t.unwindAt < 0 || len(t.frames)-1 <= t.unwindAt) {
			s.unwindStep(w, t)
			continue
		}
		fr := t.top()
		if fr == nil {
			t.status = TDone
			continue
		}
		if fr.unwinding {
			if len(fr.defers) > 0 {
				d := fr.defers[len(fr.defers)-1]
				fr.defers = fr.defers[:len(fr.defers)-1]
				n := len(t.frames)
				s.doCallSafe(w, t, fr, d)
				if len(t.frames) > n {
					t.top().byDefer = true
				}
			} else {
				s.finishRecovered(t, fr)
			}
			continue
		}
		if len(s.threads) > 1 && !t.committed {
			if vis, yield := s.isVisible(fr, fr.block.Instrs[fr.pc]); vis {
				if !s.schedule(w, t, yield) {
					break
				}
				if s.cur != t.id {
					continue
				}
			}
		}
		wasCommitted := t.committed
		s.step(w, t)
		if wasCommitted {
			t.committed = false
		}
		if s.steps > maxSteps {
			s.finish("UNWIND", "instruction budget exceeded")
		}
	}
}

func (s *State) doCallSafe(w *Worker, t *Thread, fr *Frame, d Deferred) {
	defer func() {
		if r := recover(); r != nil {
			if p, ok := r.(goPanic); ok {
				s.raise(t, p.val)
				return
			}
			panic(r)
		}
	}()
	s.doCall(w, t, fr, d.fn, d.args, -1, d.call)
}

// ---------------------------------------------------------------------------
// harness execution

func (e *Engine) harnesses(prop string) []*ssa.Function {
	var out []*ssa.Function
	for _, p := range []*ssa.Package{e.logPkg, e.exprPkg} {
		if p == nil {
			continue
		}
		for name, m := range p.Members {
			if fn, ok := m.(*ssa.Function); ok && strings.HasPrefix(name, "H_"+prop+"_") {
				out = append(out, fn)
			}
		}
	}
	sort.Slice(out, func(i, j int) bool { return out[i].Name() < out[j].Name() })
	return out
}

func (e *Engine) runHarness(fn *ssa.Function, timeout time.Duration) *RunResult {
	res := &RunResult{Harness: fn.Name(), Outcomes: map[string]int64{}, Reached: map[string]int64{}, KnownSeen: map[string]*Violation{}, sampleEvery: 1}
	e.results = res
	e.stack = nil
	e.stopped = 0
	e.deadline = time.Now().Add(timeout)
	s0 := e.template.fork()
	s0.harness = fn.Name()
	s0.opts = HarnessOpts{LoopBound: defaultLoopBound, Tier: e.tier, Preempt: 0, MapOrder: 0}
	t := &Thread{id: 0, name: "main"}
	t.frames = []*Frame{s0.newFrame(fn, nil, nil, -1)}
	s0.threads = []*Thread{t}
	e.stack = []*State{s0}
	e.active = 0
	var wg sync.WaitGroup
	for i := 0; i < e.workers; i++ {
		wg.Add(1)
		go func(i int) {
			defer wg.Done()
			w := &Worker{eng: e, id: i}
			sv, err := newSolver("z3")
			if err != nil {
				panic(err)
			}
			w.solver = sv
			defer sv.Close()
			if e.tier == 1 && os.Getenv("SYMGO_NOCROSS") == "" {
				for _, k := range []string{"z3-new", "cvc5"} {
					if xs, err := newSolver(k); err == nil {
						w.cross = append(w.cross, xs)
						defer xs.Close()
					}
				}
			}
			for {
				e.mu.Lock()
				for len(e.stack) == 0 && e.active > 0 {
					e.cond.Wait()
				}
				if len(e.stack) == 0 {
					e.mu.Unlock()
					e.cond.Broadcast()
					return
				}
				s := e.stack[len(e.stack)-1]
				e.stack = e.stack[:len(e.stack)-1]
				e.active++
				e.mu.Unlock()
				if atomic.LoadInt32(&e.stopped) == 0 {
					w.run(s)
					e.record(w, s)
				}
				e.mu.Lock()
				e.active--
				if e.active == 0 && len(e.stack) == 0 {
					e.cond.Broadcast()
				}
				e.mu.Unlock()
			}
		}(i)
	}
	stopProg := make(chan struct{})
	go func() {
		tk := time.NewTicker(15 * time.Second)
		defer tk.Stop()
		for {
			select {
			case <-stopProg:
				return
			case <-tk.C:
				e.mu.Lock()
				fmt.Fprintf(os.Stderr, "  [%s] paths=%d pending=%d outcomes=%v queries=%d\n", fn.Name(), res.Paths, len(e.stack), res.Outcomes, atomic.LoadInt64(&gstats.queries))
				e.mu.Unlock()
			}
		}
	}()
	wg.Wait()
	close(stopProg)
	if atomic.LoadInt32(&e.stopped) != 0 {
		res.Inconcl = append(res.Inconcl, "time budget exhausted before all paths were explored")
	}
	return res
}

func (e *Engine) record(w *Worker, s *State) {
	res := e.results
	if time.Now().After(e.deadline) {
		atomic.StoreInt32(&e.stopped, 1)
	}
	e.mu.Lock()
	defer e.mu.Unlock()
	res.Steps += s.steps
	if s.outcome == "INFEASIBLE" {
		res.Outcomes["INFEASIBLE"]++
		return
	}
	res.Paths++
	res.Outcomes[s.outcome]++
	for l := range s.reached {
		res.Reached[l]++
	}
	if s.pcUnk {
		res.Unknown++
	}
	switch s.outcome {
	case "OK":
	case "PANIC", "BLOCKED", "DIVERGE":
		if s.opts.Tier >= 0 {
			e.addViolation(s, s.outcome, s.outcome, s.detail)
		}
	case "UNWIND", "ERROR", "UNKNOWN":
		msg := s.outcome + ": " + s.detail
		dup := false
		for _, m := range res.Inconcl {
			if m == msg {
				dup = true
			}
		}
		if !dup && len(res.Inconcl) < 8 {
			res.Inconcl = append(res.Inconcl, msg)
		}
	}
	// sample
	if res.Paths%res.sampleEvery == 0 {
		if len(res.Samples) >= 64 {
			// thin out
			ns := res.Samples[:0]
			for i, sm := range res.Samples {
				if i%2 == 0 {
					ns = append(ns, sm)
				}
			}
			res.Samples = ns
			res.sampleEvery *= 2
		}
		var reached []string
		for l := range s.reached {
			reached = append(reached, l)
		}
		sort.Strings(reached)
		sm := PathSample{Inputs: s.concreteInputs(s.model), Choices: s.choices, Outcome: s.outcome, Reached: reached, model: s.model}
		for _, o := range s.observ {
			sm.Observed = append(sm.Observed, ObservedRec{o.Label, s.evalDescribe(o.Val)})
		}
		res.Samples = append(res.Samples, sm)
	}
}

// evalDescribe renders a value under the state's model.
func (s *State) evalDescribe(v Value) string {
	switch x := v.(type) {
	case *Term:
		u, ok := s.model.Eval(x)
		if !ok {
			return "?"
		}
		switch x.Sort {
		case SBool:
			return fmt.Sprint(u == 1)
		case SInt:
			return fmt.Sprint(int64(u))
		}
		return fmt.Sprint(u)
	case *SymStr:
		b := make([]byte, len(x.B))
		for i, e := range x.B {
			switch c := e.(type) {
			case uint64:
				b[i] = byte(c)
			case *Term:
				u, _ := s.model.Eval(c)
				b[i] = byte(u)
			}
		}
		return strconv.Quote(string(b))
	case Iface:
		if x.T == nil {
			return "nil"
		}
		return s.evalDescribe(x.V)
	case NativeVal:
		return fmt.Sprint(x.V)
	case string:
		return strconv.Quote(x)
	}
	return describe(v)
}

// addViolation must be called with e.mu held or from the owning worker before record.
func (e *Engine) addViolation(s *State, kind, label, detail string) {
	v := &Violation{Harness: s.harness, Kind: kind, Label: label, Detail: detail, Model: s.model,
		NoNative: s.noNative,
		Choices: append([]ChoiceRec(nil), s.choices...), Decisions: append([]int(nil), s.rawChoices...), Inputs: s.concreteInputs(s.model), Trace: append([]string(nil), s.trace...)}
	for id := range s.knownIn {
		if kf, ok := e.known[id]; ok && kf.Status == "open" {
			v.Known = id
		}
	}
	res := e.results
	if v.Known != "" {
		if _, ok := res.KnownSeen[v.Known]; !ok {
			res.KnownSeen[v.Known] = v
		}
		return
	}
	for _, o := range res.Violations {
		if o.Kind == v.Kind && o.Label == v.Label {
			return
		}
	}
	if len(res.Violations) < 50 {
		res.Violations = append(res.Violations, v)
	}
}

func repoFile(repo, name string) string { return filepath.Join(repo, name) }

// ReplayDoc is a stored counterexample: harness, input values (by variable name) and the decision vector.
type ReplayDoc struct {
	Property  string            `json:"property"`
	Harness   string            `json:"harness"`
	Kind      string            `json:"kind"`
	Label     string            `json:"label"`
	Decisions []int             `json:"decisions"`
	Values    map[string]uint64 `json:"values"`
	Tier      int               `json:"tier"`
}

// isGlobalObj reports whether heap object id is the storage of a package-level variable of the code under test.
func (e *Engine) isGlobalObj(s *State, id int32) bool {
	return e.globalIDs[id] || s.extraGlobIDs[id]
}
