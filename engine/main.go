package main

import (
	"flag"
	"fmt"
	"os"
	"runtime"
	"time"
)

func main() {
	var (
		repo    = flag.String("repo", "/repo", "repository working tree")
		verif   = flag.String("verif", "/verif", "verification directory")
		tier    = flag.String("tier", "quick", "quick|thorough")
		workers = flag.Int("workers", runtime.NumCPU(), "worker count")
		only    = flag.String("harness", "", "run only this harness function")
		timeout = flag.Duration("timeout", 45*time.Minute, "time budget per harness")
		noRep   = flag.Bool("noreplay", false, "skip native replay / cross-check")
		debug   = flag.Bool("debug", false, "print paths")
		replay  = flag.String("replay", "", "re-execute a stored counterexample (replay file) deterministically with a call trace")
	)
	flag.Parse()
	if *replay != "" {
		os.Exit(runReplay(*replay, *repo, *verif))
	}
	if flag.NArg() < 1 {
		fmt.Fprintln(os.Stderr, "usage: symgo [flags] <property-id>|selftest")
		os.Exit(2)
	}
	if env := os.Getenv("VERIF_TIER"); env != "" && !isFlagSet("tier") {
		*tier = env
	}
	os.Exit(runCheck(flag.Arg(0), *repo, *verif, *tier, *workers, *only, *timeout, *noRep, *debug))
}

func isFlagSet(name string) bool {
	set := false
	flag.Visit(func(f *flag.Flag) {
		if f.Name == name {
			set = true
		}
	})
	return set
}
