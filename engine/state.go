package main

import (
	"fmt"
	"go/types"
	"sort"
	"strings"
	"sync/atomic"

	"golang.org/x/tools/go/ssa"
)

const (
	KMem = iota
	KMap
	KChan
	KIter
)

type MapEntry struct {
	K, V    Value
	Deleted bool
}

type Object struct {
	gen   uint32
	kind  uint8
	slots []Value
	// map
	entries []MapEntry
	// chan
	buf     []Value
	capa    int
	closed  bool
	// iterator
	iterKeys []Value // map keys snapshot or nil
	iterStr  Value   // string being iterated
	iterPos  int
	iterMap  int32
	note     string
}

func (o *Object) clone() *Object {
	c := *o
	if o.slots != nil {
		c.slots = append([]Value(nil), o.slots...)
	}
	if o.entries != nil {
		c.entries = append([]MapEntry(nil), o.entries...)
	}
	if o.buf != nil {
		c.buf = append([]Value(nil), o.buf...)
	}
	return &c
}

type Deferred struct {
	fn   Value
	args []Value
	call *ssa.Defer
}

type Frame struct {
	fn        *ssa.Function
	info      *fnInfo
	block     *ssa.BasicBlock
	prev      *ssa.BasicBlock
	pc        int
	locals    []Value
	env       []Value
	defers    []Deferred
	destReg   int32 // register in the caller receiving the result; -1 = discard
	unwinding bool  // running deferred calls because of a panic
	byUnwind  bool  // this frame is a deferred call started by an unwinding frame
	byDefer   bool  // this frame is a deferred call
	callSite  ssa.Instruction
	visits    map[int]int // loop bound: block index -> visits
	symAtLoop map[int]int
	results   Value
	post      func(s *State, rv Value) Value // result post-processing (reflect.Value.Call)
}

func (f *Frame) clone() *Frame {
	c := *f
	c.locals = append([]Value(nil), f.locals...)
	if f.defers != nil {
		c.defers = append([]Deferred(nil), f.defers...)
	}
	if f.visits != nil {
		c.visits = make(map[int]int, len(f.visits))
		for k, v := range f.visits {
			c.visits[k] = v
		}
		c.symAtLoop = make(map[int]int, len(f.symAtLoop))
		for k, v := range f.symAtLoop {
			c.symAtLoop[k] = v
		}
	}
	return &c
}

const (
	TRunnable = iota
	TDone
)

type Thread struct {
	id        int
	frames    []*Frame
	status    int
	panicking bool
	panicVal  Value
	unwindAt  int // index of the frame whose deferred call is running during a panic (-1: none)
	committed bool // the pending visible operation was already chosen by the scheduler
	symBr     int  // number of symbolic decisions taken by this thread
	name      string
}

func (t *Thread) top() *Frame {
	if len(t.frames) == 0 {
		return nil
	}
	return t.frames[len(t.frames)-1]
}

func (t *Thread) clone() *Thread {
	c := *t
	c.frames = make([]*Frame, len(t.frames))
	for i, f := range t.frames {
		c.frames[i] = f.clone()
	}
	return &c
}

type Violation struct {
	Harness string
	Kind    string // ASSERT, PANIC, BLOCKED, DIVERGE
	Label   string
	Known   string // id of the known-finding region (if inside one)
	Model   Model
	Choices []ChoiceRec
	Decisions []int
	Inputs  []InputRec
	Trace   []string
	Detail  string
	NoNative bool
}

type ChoiceRec struct {
	Name string `json:"name"`
	Val  int    `json:"val"`
}

type InputRec struct {
	Name string `json:"name"`
	Kind string `json:"kind"` // int, int32, ..., byte, bool, bytes
	N    int    `json:"n,omitempty"`
	// symbolic variable names (one per byte for bytes)
	Vars []string `json:"-"`
	// concrete values under the model (filled at report time)
	Val interface{} `json:"val"`
}

var genCounter uint32

type State struct {
	eng     *Engine
	heap    []*Object
	gen     uint32
	threads []*Thread
	cur     int

	pc     []*Term
	known  map[*Term]bool
	model  Model
	pcUnk  bool // a feasibility query came back unknown on this path

	pending []int
	made    []int

	symSeq     map[string]int
	symUndo    []string
	extraGlobs map[*ssa.Global]int32
	extraGlobIDs map[int32]bool

	choices []ChoiceRec
	inputs  []InputRec
	trace   []string
	reached map[string]bool
	knownIn map[string]bool // active known-finding regions
	observ  []ObsRec

	preempt  int
	preBound int
	schedAll bool // pre-empt at every visible op (else only at yields/blocking)
	steps    int64

	env *Env // environment models (pool, fs, clock, ...)

	done    bool
	outcome string
	detail  string
	harness string
	opts    HarnessOpts
	fmtLog  []fmtRec
	noNative bool // violations on this path cannot be replayed natively
	curWorker *Worker // the worker currently executing this state
	rawChoices []int // every choose() result in order (deterministic engine replay)
	replayAt int
	choicesMark, rawMark, inputsMark int // lengths at the start of the current instruction
	mapRev  int // global map-order choice (0 undecided, 1 insertion, 2 reverse)
}

type ObsRec struct {
	Label string
	Val   Value
}

func (s *State) fork() *State {
	c := *s
	c.heap = append([]*Object(nil), s.heap...)
	ng := atomic.AddUint32(&genCounter, 1)
	c.gen = ng
	s.gen = atomic.AddUint32(&genCounter, 1)
	c.threads = make([]*Thread, len(s.threads))
	for i, t := range s.threads {
		c.threads[i] = t.clone()
	}
	c.pc = append([]*Term(nil), s.pc...)
	c.known = make(map[*Term]bool, len(s.known)+8)
	for k, v := range s.known {
		c.known[k] = v
	}
	c.pending = nil
	c.made = nil
	c.symSeq = make(map[string]int, len(s.symSeq))
	for k, v := range s.symSeq {
		c.symSeq[k] = v
	}
	for _, n := range s.symUndo {
		c.symSeq[n]--
	}
	c.symUndo = nil
	if s.extraGlobIDs != nil {
		c.extraGlobIDs = make(map[int32]bool, len(s.extraGlobIDs))
		for k, v := range s.extraGlobIDs {
			c.extraGlobIDs[k] = v
		}
	}
	if s.extraGlobs != nil {
		c.extraGlobs = make(map[*ssa.Global]int32, len(s.extraGlobs))
		for k, v := range s.extraGlobs {
			c.extraGlobs[k] = v
		}
	}
	// the clone re-executes the current instruction: drop what this instruction has logged so far
	c.choices = append([]ChoiceRec(nil), s.choices[:min(s.choicesMark, len(s.choices))]...)
	c.rawChoices = append([]int(nil), s.rawChoices[:min(s.rawMark, len(s.rawChoices))]...)
	c.inputs = append([]InputRec(nil), s.inputs[:min(s.inputsMark, len(s.inputs))]...)
	c.trace = append([]string(nil), s.trace...)
	c.observ = append([]ObsRec(nil), s.observ...)
	c.reached = make(map[string]bool, len(s.reached))
	for k, v := range s.reached {
		c.reached[k] = v
	}
	c.knownIn = make(map[string]bool, len(s.knownIn))
	for k, v := range s.knownIn {
		c.knownIn[k] = v
	}
	c.env = s.env.clone()
	c.fmtLog = append([]fmtRec(nil), s.fmtLog...)
	return &c
}

// ---------------------------------------------------------------------------
// heap

func (s *State) alloc(o *Object) int32 {
	o.gen = s.gen
	s.heap = append(s.heap, o)
	return int32(len(s.heap) - 1)
}

func (s *State) allocMem(slots []Value) int32 {
	return s.alloc(&Object{kind: KMem, slots: slots})
}

func (s *State) allocType(t types.Type) Ptr {
	return Ptr{ID: s.allocMem(appendZero(make([]Value, 0, slotsOf(t)), t))}
}

func (s *State) obj(id int32) *Object { return s.heap[id] }

func (s *State) wobj(id int32) *Object {
	o := s.heap[id]
	if o.gen != s.gen {
		o = o.clone()
		o.gen = s.gen
		s.heap[id] = o
	}
	return o
}

type engineAbort struct {
	outcome string
	detail  string
}

func (s *State) abort(outcome, format string, args ...interface{}) {
	panic(engineAbort{outcome, fmt.Sprintf(format, args...) + s.stackString()})
}

func (s *State) stackString() string {
	if s.cur >= len(s.threads) {
		return ""
	}
	t := s.threads[s.cur]
	var sb strings.Builder
	sb.WriteString(" [stack:")
	for i := len(t.frames) - 1; i >= 0 && i >= len(t.frames)-8; i-- {
		fr := t.frames[i]
		pos := ""
		if fr.pc < len(fr.block.Instrs) {
			pos = s.eng.prog.Fset.Position(fr.block.Instrs[fr.pc].Pos()).String()
		}
		fmt.Fprintf(&sb, " %s(%s)", fr.fn.String(), pos)
	}
	sb.WriteString("]")
	return sb.String()
}

func (s *State) unsupported(format string, args ...interface{}) {
	s.abort("ERROR", format, args...)
}

// goPanic is raised inside instruction execution to start a Go-level panic.
type goPanic struct{ val Value }

func (s *State) load(p Value, t types.Type) Value {
	switch q := p.(type) {
	case Ptr:
		if q.ID == 0 {
			panic(goPanic{s.runtimeError("invalid memory address or nil pointer dereference")})
		}
		o := s.heap[q.ID]
		if isAggType(t) {
			n := slotsOf(t)
			out := make(Agg, n)
			copy(out, o.slots[q.Off:int(q.Off)+n])
			return out
		}
		if int(q.Off) >= len(o.slots) {
			s.unsupported("load out of object bounds (%d >= %d) type %s", q.Off, len(o.slots), t)
		}
		return o.slots[q.Off]
	case StrPtr:
		return strIndex(q.S, q.Off)
	}
	s.unsupported("load through %T", p)
	return nil
}

func (s *State) store(p Value, v Value, t types.Type) {
	q, ok := p.(Ptr)
	if !ok {
		s.unsupported("store through %T", p)
	}
	if q.ID == 0 {
		panic(goPanic{s.runtimeError("invalid memory address or nil pointer dereference")})
	}
	o := s.wobj(q.ID)
	if isAggType(t) {
		a := v.(Agg)
		copy(o.slots[q.Off:int(q.Off)+len(a)], a)
		return
	}
	o.slots[q.Off] = v
}

// runtimeError builds an error value (as interface) for run-time panics.
func (s *State) runtimeError(msg string) Value {
	return s.newError("runtime error: " + msg)
}

// newError allocates an *errors.errorString.
func (s *State) newError(msg Value) Value {
	if m, ok := msg.(string); ok {
		msg = m
	}
	id := s.allocMem([]Value{msg})
	return Iface{T: s.eng.errStringPtrType, V: Ptr{ID: id}}
}

// ---------------------------------------------------------------------------
// path condition

func (s *State) addPC(c *Term) {
	if c.IsConst() {
		return
	}
	if c.Op == OBAnd {
		s.addPC(c.A[0])
		s.addPC(c.A[1])
		return
	}
	if v, ok := s.known[c]; ok && v {
		return
	}
	s.pc = append(s.pc, c)
	s.setKnown(c, true)
}

func (s *State) setKnown(c *Term, v bool) {
	s.known[c] = v
	if c.Op == ONot {
		s.known[c.A[0]] = !v
	}
}

// slice returns the PC conjuncts transitively sharing variables with the seeds.
func (s *State) slice(seeds ...*Term) []*Term {
	vars := map[*Term]bool{}
	for _, q := range seeds {
		for _, v := range q.Vars().ids {
			vars[v] = true
		}
	}
	used := make([]bool, len(s.pc))
	var out []*Term
	for changed := true; changed; {
		changed = false
		for i, c := range s.pc {
			if used[i] {
				continue
			}
			hit := false
			for _, v := range c.Vars().ids {
				if vars[v] {
					hit = true
					break
				}
			}
			if hit {
				used[i] = true
				out = append(out, c)
				for _, v := range c.Vars().ids {
					if !vars[v] {
						vars[v] = true
						changed = true
					}
				}
			}
		}
	}
	return out
}

// checkSat decides PC ∧ extra; on sat the state's model is NOT updated (the merged model is returned).
func (s *State) checkSat(w *Worker, extra *Term) (int, Model) {
	conj := append(s.slice(extra), extra)
	res, m, cached := w.solver.CheckCached2(conj)
	if !cached {
		switch res {
		case ResSat:
			// every sat answer is validated: the model must satisfy each conjunct under the engine's evaluator
			for _, c := range conj {
				if v, ok := m.Eval(c); ok && v != 1 {
					atomic.AddInt64(&xstats.modelBad, 1)
					s.eng.noteInconclusive("solver model does not satisfy the query (" + c.String() + ")")
					break
				}
			}
			atomic.AddInt64(&xstats.modelsValidated, 1)
		case ResUnsat:
			// every unsat answer prunes a path: re-decided by the other solvers in the thorough tier
			if len(w.cross) > 0 {
				w.crossCheck(conj, res, "branch/assertion query")
			}
		}
	}
	if res == ResSat {
		nm := make(Model, len(s.model)+len(m))
		for k, v := range s.model {
			nm[k] = v
		}
		for k, v := range m {
			nm[k] = v
		}
		return res, nm
	}
	return res, nil
}

func (s *State) evalModel(t *Term) (uint64, bool) {
	return s.model.Eval(t)
}

// recordDecision notes a decision of the current instruction.
func (s *State) recordDecision(d int) { s.made = append(s.made, d) }

// branch decides a (possibly symbolic) condition for this state, forking the other side.
func (s *State) branch(w *Worker, cond Value) bool {
	if b, ok := cond.(bool); ok {
		return b
	}
	c := cond.(*Term)
	if c.IsConst() {
		return c.Imm == 1
	}
	if len(s.pending) > 0 {
		d := s.pending[0]
		s.pending = s.pending[1:]
		s.recordDecision(d)
		return d == 1
	}
	if v, ok := s.known[c]; ok {
		atomic.AddInt64(&gstats.synHits, 1)
		s.recordDecision(b2i(v))
		return v
	}
	s.threads[s.cur].symBr++
	// which side does the current model take?
	var side bool
	mv, ok := s.evalModel(c)
	if ok {
		atomic.AddInt64(&gstats.modelHits, 1)
		side = mv == 1
	} else {
		res, m := s.checkSat(w, c)
		switch res {
		case ResSat:
			side = true
			s.model = m
		case ResUnsat:
			side = false
			// PC ∧ ¬c must be sat since PC is; refresh the model
			res2, m2 := s.checkSat(w, mkNot(c))
			if res2 == ResSat {
				s.model = m2
			} else {
				s.pcUnk = true
			}
			s.setKnown(c, false)
			s.recordDecision(0)
			return false
		default:
			s.pcUnk = true
			side = true
		}
	}
	// other side feasible?
	var other *Term
	if side {
		other = mkNot(c)
	} else {
		other = c
	}
	res, m := s.checkSat(w, other)
	if res == ResUnknown {
		s.pcUnk = true
	}
	if res == ResSat || res == ResUnknown {
		cl := s.fork()
		cl.pending = append(append([]int(nil), s.made...), b2i(!side))
		cl.addPC(other)
		if res == ResSat {
			cl.model = m
		} else {
			cl.pcUnk = true
		}
		w.push(cl)
		if side {
			s.addPC(c)
		} else {
			s.addPC(mkNot(c))
		}
	} else {
		s.setKnown(c, side)
	}
	s.recordDecision(b2i(side))
	return side
}

func b2i(b bool) int {
	if b {
		return 1
	}
	return 0
}

// assume adds a constraint; returns false if the path became infeasible.
func (s *State) assume(w *Worker, cond Value) bool {
	if b, ok := cond.(bool); ok {
		return b
	}
	c := cond.(*Term)
	if c.IsConst() {
		return c.Imm == 1
	}
	if v, ok := s.known[c]; ok {
		return v
	}
	if mv, ok := s.evalModel(c); ok && mv == 1 {
		s.addPC(c)
		return true
	}
	res, m := s.checkSat(w, c)
	switch res {
	case ResSat:
		s.model = m
		s.addPC(c)
		return true
	case ResUnsat:
		return false
	}
	s.pcUnk = true
	s.addPC(c)
	return true
}

// choose forks n ways and returns this state's alternative.
func (s *State) choose(w *Worker, n int) int {
	if n <= 1 {
		return 0
	}
	if len(s.pending) > 0 {
		d := s.pending[0]
		s.pending = s.pending[1:]
		s.recordDecision(d)
		s.rawChoices = append(s.rawChoices, d)
		return d
	}
	if rp := s.eng.replay; rp != nil {
		// deterministic replay: follow the recorded decision vector, no forking
		d := 0
		if s.replayAt < len(rp.Decisions) {
			d = rp.Decisions[s.replayAt]
		}
		s.replayAt++
		if d >= n {
			d = 0
		}
		s.recordDecision(d)
		s.rawChoices = append(s.rawChoices, d)
		return d
	}
	for i := n - 1; i >= 1; i-- {
		cl := s.fork()
		cl.pending = append(append([]int(nil), s.made...), i)
		w.push(cl)
	}
	s.recordDecision(0)
	s.rawChoices = append(s.rawChoices, 0)
	return 0
}

// concretize returns a concrete value for v, forking over all feasible values.
func (s *State) concretize(w *Worker, v Value, what string) uint64 {
	t, ok := v.(*Term)
	if !ok {
		switch x := v.(type) {
		case uint64:
			return x
		case bool:
			return uint64(b2i(x))
		}
		s.unsupported("concretize %T", v)
	}
	if t.IsConst() {
		return t.Imm
	}
	for depth := 0; ; depth++ {
		if depth > s.eng.concCap {
			s.abort("UNWIND", "concretization of %s exceeds %d values", what, s.eng.concCap)
		}
		mv, ok := s.evalModel(t)
		if !ok {
			res, m := s.checkSat(w, tTrue)
			if res != ResSat {
				s.abort("UNKNOWN", "cannot evaluate %s", what)
			}
			s.model = m
			mv, _ = s.evalModel(t)
		}
		var cv *Term
		switch t.Sort {
		case SBool:
			cv = mkBool(mv == 1)
		case SInt:
			cv = mkIntC(int64(mv))
		default:
			cv = mkBV(mv, t.Sort)
		}
		if s.branch(w, mkEq(t, cv)) {
			return mv
		}
		// replayed clone: t != mv is in the PC; pick again
	}
}

// ---------------------------------------------------------------------------
// fresh symbols

func (s *State) freshName(name string) string {
	n := s.symSeq[name]
	s.symSeq[name] = n + 1
	s.symUndo = append(s.symUndo, name)
	if n == 0 {
		return name
	}
	return fmt.Sprintf("%s#%d", name, n)
}

// pinReplay constrains a fresh input variable to its recorded value in replay mode.
func (s *State) pinReplay(w *Worker, v *Term) {
	rp := s.eng.replay
	if rp == nil {
		return
	}
	val, ok := rp.Values[v.Name]
	if !ok {
		return
	}
	var c *Term
	switch v.Sort {
	case SBool:
		c = mkBool(val != 0)
	case SInt:
		c = mkIntC(int64(val))
	default:
		c = mkBV(val, v.Sort)
	}
	s.assume(w, mkEq(v, c))
}

func (s *State) tracef(format string, args ...interface{}) {
	if len(s.trace) < 400 {
		s.trace = append(s.trace, fmt.Sprintf(format, args...))
	}
}

// ---------------------------------------------------------------------------
// reporting helpers

func (s *State) concreteInputs(m Model) []InputRec {
	out := make([]InputRec, len(s.inputs))
	for i, in := range s.inputs {
		r := in
		switch in.Kind {
		case "bytes", "string":
			b := make([]int, len(in.Vars))
			for j, vn := range in.Vars {
				b[j] = int(m[vn] & 0xff)
			}
			r.Val = b
		case "bool":
			r.Val = m[in.Vars[0]] == 1
		default:
			v := m[in.Vars[0]]
			switch in.Kind {
			case "int", "int64", "lia":
				r.Val = int64(v)
			case "int32":
				r.Val = int64(int32(v))
			case "int16":
				r.Val = int64(int16(v))
			case "int8":
				r.Val = int64(int8(v))
			default:
				// uint64 may exceed JSON number precision: encode as string
				r.Val = fmt.Sprintf("%d", v)
			}
		}
		out[i] = r
	}
	return out
}

func (s *State) pcString() string {
	parts := make([]string, len(s.pc))
	for i, c := range s.pc {
		parts[i] = c.String()
	}
	sort.Strings(parts)
	return strings.Join(parts, " ∧ ")
}
