package main

// Hash-consed SMT terms with constant folding, evaluation under a model and
// SMT-LIB2 printing. Sorts: Bool, BitVec(w), Int (mathematical, for clock values).

import (
	"fmt"
	"math/big"
	"strings"
	"sync"
	"sync/atomic"
)

type Sort uint8 // 0 = Bool, 1..64 = BitVec width, 255 = Int

const (
	SBool Sort = 0
	SInt  Sort = 255
)

func (s Sort) String() string {
	switch s {
	case SBool:
		return "Bool"
	case SInt:
		return "Int"
	}
	return fmt.Sprintf("(_ BitVec %d)", int(s))
}

type Op uint8

const (
	OConst Op = iota
	OVar
	OAdd
	OSub
	OMul
	OUDiv
	OSDiv
	OURem
	OSRem
	OAnd
	OOr
	OXor
	ONot // bvnot or boolean not
	ONeg
	OShl
	OLShr
	OAShr
	OExtract // imm = lo, sort gives width
	OZExt
	OSExt
	OIte
	OEq
	OUlt
	OUle
	OSlt
	OSle
	OBAnd // boolean and
	OBOr
	OILt // Int <
	OILe
	OIDiv // Int div by positive constant (floor)
	OIMod
	OFpIsNaN // arg: BV64 bit pattern
	OFpIsInf
	OFpLt // args BV64 bit patterns compared as float64
	OFpLe
	OFpEq
	OF32to64 // arg BV32 -> BV64 (bit pattern of converted value; NaN payload canonical)
	OF64to32
	OConcat
)

var opNames = map[Op]string{
	OAdd: "bvadd", OSub: "bvsub", OMul: "bvmul", OUDiv: "bvudiv", OSDiv: "bvsdiv", OURem: "bvurem", OSRem: "bvsrem",
	OAnd: "bvand", OOr: "bvor", OXor: "bvxor", ONeg: "bvneg", OShl: "bvshl", OLShr: "bvlshr", OAShr: "bvashr",
	OIte: "ite", OEq: "=", OUlt: "bvult", OUle: "bvule", OSlt: "bvslt", OSle: "bvsle", OBAnd: "and", OBOr: "or",
	OILt: "<", OILe: "<=", OIDiv: "div", OIMod: "mod", OConcat: "concat",
}

type Term struct {
	Op   Op
	Sort Sort
	A    [3]*Term
	Imm  uint64 // const value (BV: masked; Bool: 0/1; Int: int64 bits), var: unused, extract: lo
	Name string // var name
	ID   uint32
	vars *varSet // lazily computed set of variables
}

type termKey struct {
	op      Op
	sort    Sort
	a, b, c uint32
	imm     uint64
	name    string
}

const nShards = 64

type termShard struct {
	sync.Mutex
	m map[termKey]*Term
}

var (
	termShards  = newShards()
	termCounter uint32
)

func newShards() *[nShards]termShard {
	var s [nShards]termShard
	for i := range s {
		s[i].m = make(map[termKey]*Term)
	}
	return &s
}

func tid(t *Term) uint32 {
	if t == nil {
		return 0
	}
	return t.ID
}

func intern(op Op, sort Sort, a, b, c *Term, imm uint64, name string) *Term {
	k := termKey{op, sort, tid(a), tid(b), tid(c), imm, name}
	h := (uint64(k.a)*31+uint64(k.b))*31 + uint64(k.c) + imm*7 + uint64(op)*131 + uint64(len(name))
	if name != "" {
		for i := 0; i < len(name); i++ {
			h = h*131 + uint64(name[i])
		}
	}
	sh := &termShards[h%nShards]
	sh.Lock()
	t, ok := sh.m[k]
	if !ok {
		t = &Term{Op: op, Sort: sort, A: [3]*Term{a, b, c}, Imm: imm, Name: name, ID: atomic.AddUint32(&termCounter, 1)}
		sh.m[k] = t
	}
	sh.Unlock()
	return t
}

func mask(w Sort) uint64 {
	if w >= 64 {
		return ^uint64(0)
	}
	return (uint64(1) << uint(w)) - 1
}

func sext(v uint64, w Sort) int64 {
	if w >= 64 {
		return int64(v)
	}
	sh := 64 - uint(w)
	return int64(v<<sh) >> sh
}

func (t *Term) IsConst() bool { return t.Op == OConst }

var (
	tTrue  = intern(OConst, SBool, nil, nil, nil, 1, "")
	tFalse = intern(OConst, SBool, nil, nil, nil, 0, "")
)

func mkBool(b bool) *Term {
	if b {
		return tTrue
	}
	return tFalse
}
func mkBV(v uint64, w Sort) *Term { return intern(OConst, w, nil, nil, nil, v&mask(w), "") }
func mkIntC(v int64) *Term        { return intern(OConst, SInt, nil, nil, nil, uint64(v), "") }
func mkVar(name string, s Sort) *Term {
	return intern(OVar, s, nil, nil, nil, 0, name)
}

// evalOp computes a BV/Bool/Int operation on constants.
func evalBin(op Op, w Sort, a, b uint64) (uint64, bool) {
	m := mask(w)
	switch op {
	case OAdd:
		return (a + b) & m, true
	case OSub:
		return (a - b) & m, true
	case OMul:
		return (a * b) & m, true
	case OUDiv:
		if b == 0 {
			return m, true
		}
		return (a / b) & m, true
	case OURem:
		if b == 0 {
			return a, true
		}
		return (a % b) & m, true
	case OSDiv:
		sa, sb := sext(a, w), sext(b, w)
		if sb == 0 {
			if sa >= 0 {
				return m, true
			}
			return 1, true
		}
		if sb == -1 {
			return uint64(-sa) & m, true
		}
		return uint64(sa/sb) & m, true
	case OSRem:
		sa, sb := sext(a, w), sext(b, w)
		if sb == 0 {
			return a, true
		}
		if sb == -1 {
			return 0, true
		}
		return uint64(sa%sb) & m, true
	case OAnd:
		return a & b, true
	case OOr:
		return a | b, true
	case OXor:
		return a ^ b, true
	case OShl:
		if b >= uint64(w) {
			return 0, true
		}
		return (a << b) & m, true
	case OLShr:
		if b >= uint64(w) {
			return 0, true
		}
		return (a >> b) & m, true
	case OAShr:
		sa := sext(a, w)
		if b >= uint64(w) {
			if sa < 0 {
				return m, true
			}
			return 0, true
		}
		return uint64(sa>>b) & m, true
	}
	return 0, false
}

func b2u(b bool) uint64 {
	if b {
		return 1
	}
	return 0
}

func mkBin(op Op, a, b *Term) *Term {
	if a.Sort != b.Sort {
		panic(fmt.Sprintf("sort mismatch in %v: %v vs %v", op, a.Sort, b.Sort))
	}
	w := a.Sort
	if w == SInt {
		return mkIntBin(op, a, b)
	}
	if a.IsConst() && b.IsConst() {
		if v, ok := evalBin(op, w, a.Imm, b.Imm); ok {
			return mkBV(v, w)
		}
	}
	// light simplifications
	switch op {
	case OAdd:
		if a.IsConst() && a.Imm == 0 {
			return b
		}
		if b.IsConst() && b.Imm == 0 {
			return a
		}
		if a.IsConst() { // canonical: const on the right
			a, b = b, a
		}
	case OSub:
		if b.IsConst() && b.Imm == 0 {
			return a
		}
		if a == b {
			return mkBV(0, w)
		}
	case OMul:
		if a.IsConst() {
			a, b = b, a
		}
		if b.IsConst() && b.Imm == 1 {
			return a
		}
		if b.IsConst() && b.Imm == 0 {
			return b
		}
	case OAnd:
		if a.IsConst() {
			a, b = b, a
		}
		if b.IsConst() && b.Imm == 0 {
			return b
		}
		if b.IsConst() && b.Imm == mask(w) {
			return a
		}
		if a == b {
			return a
		}
	case OOr, OXor:
		if a.IsConst() {
			a, b = b, a
		}
		if b.IsConst() && b.Imm == 0 {
			return a
		}
	case OShl, OLShr, OAShr:
		if b.IsConst() && b.Imm == 0 {
			return a
		}
	}
	return intern(op, w, a, b, nil, 0, "")
}

func mkIntBin(op Op, a, b *Term) *Term {
	if a.IsConst() && b.IsConst() {
		x, y := int64(a.Imm), int64(b.Imm)
		switch op {
		case OAdd:
			return mkIntC(x + y)
		case OSub:
			return mkIntC(x - y)
		case OMul:
			return mkIntC(x * y)
		case OIDiv:
			if y > 0 {
				return mkIntC(floorDiv(x, y))
			}
		case OIMod:
			if y > 0 {
				return mkIntC(x - floorDiv(x, y)*y)
			}
		}
	}
	switch op {
	case OAdd:
		if b.IsConst() && b.Imm == 0 {
			return a
		}
		if a.IsConst() && a.Imm == 0 {
			return b
		}
	case OSub:
		if b.IsConst() && b.Imm == 0 {
			return a
		}
	case OMul:
		if !a.IsConst() && !b.IsConst() {
			panic("nonlinear Int multiplication")
		}
	}
	return intern(op, SInt, a, b, nil, 0, "")
}

func floorDiv(x, y int64) int64 {
	q := x / y
	if (x%y != 0) && ((x < 0) != (y < 0)) {
		q--
	}
	return q
}

func mkNot(a *Term) *Term {
	if a.Sort == SBool {
		if a.IsConst() {
			return mkBool(a.Imm == 0)
		}
		if a.Op == ONot {
			return a.A[0]
		}
		return intern(ONot, SBool, a, nil, nil, 0, "")
	}
	if a.IsConst() {
		return mkBV(^a.Imm, a.Sort)
	}
	return intern(ONot, a.Sort, a, nil, nil, 0, "")
}

func mkNeg(a *Term) *Term {
	if a.Sort == SInt {
		return mkIntBin(OSub, mkIntC(0), a)
	}
	if a.IsConst() {
		return mkBV(-a.Imm, a.Sort)
	}
	return intern(ONeg, a.Sort, a, nil, nil, 0, "")
}

func mkAndB(a, b *Term) *Term {
	if a.IsConst() {
		if a.Imm == 0 {
			return tFalse
		}
		return b
	}
	if b.IsConst() {
		if b.Imm == 0 {
			return tFalse
		}
		return a
	}
	if a == b {
		return a
	}
	return intern(OBAnd, SBool, a, b, nil, 0, "")
}

func mkOrB(a, b *Term) *Term {
	if a.IsConst() {
		if a.Imm == 1 {
			return tTrue
		}
		return b
	}
	if b.IsConst() {
		if b.Imm == 1 {
			return tTrue
		}
		return a
	}
	if a == b {
		return a
	}
	return intern(OBOr, SBool, a, b, nil, 0, "")
}

func mkIte(c, a, b *Term) *Term {
	if c.IsConst() {
		if c.Imm == 1 {
			return a
		}
		return b
	}
	if a == b {
		return a
	}
	if a.Sort == SBool {
		// ite(c,a,b) = (c&a)|(!c&b)
		if a.IsConst() && b.IsConst() {
			if a.Imm == 1 {
				return c
			}
			return mkNot(c)
		}
	}
	return intern(OIte, a.Sort, c, a, b, 0, "")
}

func mkEq(a, b *Term) *Term {
	if a.Sort != b.Sort {
		panic(fmt.Sprintf("sort mismatch in =: %v vs %v", a.Sort, b.Sort))
	}
	if a == b {
		return tTrue
	}
	if a.IsConst() && b.IsConst() {
		return mkBool(a.Imm == b.Imm)
	}
	if a.Sort == SBool {
		if a.IsConst() {
			a, b = b, a
		}
		if b.IsConst() {
			if b.Imm == 1 {
				return a
			}
			return mkNot(a)
		}
	}
	if a.ID > b.ID {
		a, b = b, a
	}
	return intern(OEq, SBool, a, b, nil, 0, "")
}

func mkCmp(op Op, a, b *Term) *Term {
	if a.Sort != b.Sort {
		panic(fmt.Sprintf("sort mismatch in cmp: %v vs %v", a.Sort, b.Sort))
	}
	if a.IsConst() && b.IsConst() {
		w := a.Sort
		switch op {
		case OUlt:
			return mkBool(a.Imm < b.Imm)
		case OUle:
			return mkBool(a.Imm <= b.Imm)
		case OSlt:
			return mkBool(sext(a.Imm, w) < sext(b.Imm, w))
		case OSle:
			return mkBool(sext(a.Imm, w) <= sext(b.Imm, w))
		case OILt:
			return mkBool(int64(a.Imm) < int64(b.Imm))
		case OILe:
			return mkBool(int64(a.Imm) <= int64(b.Imm))
		}
	}
	if a == b {
		switch op {
		case OUlt, OSlt, OILt:
			return tFalse
		default:
			return tTrue
		}
	}
	return intern(op, SBool, a, b, nil, 0, "")
}

func mkExtract(a *Term, lo uint, w Sort) *Term {
	if w == a.Sort && lo == 0 {
		return a
	}
	if a.IsConst() {
		return mkBV(a.Imm>>lo, w)
	}
	if lo == 0 && (a.Op == OZExt || a.Op == OSExt) {
		in := a.A[0]
		if in.Sort == w {
			return in
		}
		if in.Sort > w {
			return mkExtract(in, 0, w)
		}
	}
	return intern(OExtract, w, a, nil, nil, uint64(lo), "")
}

func mkZExt(a *Term, w Sort) *Term {
	if w == a.Sort {
		return a
	}
	if a.IsConst() {
		return mkBV(a.Imm, w)
	}
	return intern(OZExt, w, a, nil, nil, 0, "")
}

func mkSExt(a *Term, w Sort) *Term {
	if w == a.Sort {
		return a
	}
	if a.IsConst() {
		return mkBV(uint64(sext(a.Imm, a.Sort)), w)
	}
	return intern(OSExt, w, a, nil, nil, 0, "")
}

func mkUn(op Op, sort Sort, a *Term) *Term { return intern(op, sort, a, nil, nil, 0, "") }

// ---------------------------------------------------------------------------
// variable sets

type varSet struct {
	ids []*Term // sorted by ID, unique
}

func (t *Term) Vars() *varSet {
	if t.vars != nil {
		return t.vars
	}
	var vs *varSet
	switch {
	case t.Op == OVar:
		vs = &varSet{ids: []*Term{t}}
	case t.Op == OConst:
		vs = &varSet{}
	default:
		vs = &varSet{}
		for _, a := range t.A {
			if a != nil {
				vs = unionVars(vs, a.Vars())
			}
		}
	}
	t.vars = vs // benign race: idempotent
	return vs
}

func unionVars(a, b *varSet) *varSet {
	if len(a.ids) == 0 {
		return b
	}
	if len(b.ids) == 0 {
		return a
	}
	out := make([]*Term, 0, len(a.ids)+len(b.ids))
	i, j := 0, 0
	for i < len(a.ids) && j < len(b.ids) {
		switch {
		case a.ids[i].ID < b.ids[j].ID:
			out = append(out, a.ids[i])
			i++
		case a.ids[i].ID > b.ids[j].ID:
			out = append(out, b.ids[j])
			j++
		default:
			out = append(out, a.ids[i])
			i++
			j++
		}
	}
	out = append(out, a.ids[i:]...)
	out = append(out, b.ids[j:]...)
	if len(out) == len(a.ids) {
		return a
	}
	if len(out) == len(b.ids) {
		return b
	}
	return &varSet{ids: out}
}

// ---------------------------------------------------------------------------
// evaluation under a model (var name -> value); missing vars are 0

type Model map[string]uint64

type evalCtx struct {
	m     Model
	cache map[*Term]uint64
}

var errEvalUnsupported = fmt.Errorf("eval unsupported")

func (m Model) Eval(t *Term) (v uint64, ok bool) {
	defer func() {
		if r := recover(); r != nil {
			if r == errEvalUnsupported {
				v, ok = 0, false
				return
			}
			panic(r)
		}
	}()
	c := evalCtx{m: m, cache: map[*Term]uint64{}}
	return c.eval(t), true
}

func (c *evalCtx) eval(t *Term) uint64 {
	switch t.Op {
	case OConst:
		return t.Imm
	case OVar:
		return c.m[t.Name]
	}
	if v, ok := c.cache[t]; ok {
		return v
	}
	var r uint64
	a := t.A
	switch t.Op {
	case OAdd, OSub, OMul, OUDiv, OSDiv, OURem, OSRem, OAnd, OOr, OXor, OShl, OLShr, OAShr:
		x, y := c.eval(a[0]), c.eval(a[1])
		if t.Sort == SInt {
			switch t.Op {
			case OAdd:
				r = uint64(int64(x) + int64(y))
			case OSub:
				r = uint64(int64(x) - int64(y))
			case OMul:
				r = uint64(int64(x) * int64(y))
			default:
				panic(errEvalUnsupported)
			}
		} else {
			r, _ = evalBin(t.Op, t.Sort, x, y)
		}
	case OIDiv:
		x, y := int64(c.eval(a[0])), int64(c.eval(a[1]))
		if y <= 0 {
			panic(errEvalUnsupported)
		}
		r = uint64(floorDiv(x, y))
	case OIMod:
		x, y := int64(c.eval(a[0])), int64(c.eval(a[1]))
		if y <= 0 {
			panic(errEvalUnsupported)
		}
		r = uint64(x - floorDiv(x, y)*y)
	case ONot:
		x := c.eval(a[0])
		if t.Sort == SBool {
			r = 1 - x
		} else {
			r = ^x & mask(t.Sort)
		}
	case ONeg:
		r = (-c.eval(a[0])) & mask(t.Sort)
	case OExtract:
		r = (c.eval(a[0]) >> t.Imm) & mask(t.Sort)
	case OZExt:
		r = c.eval(a[0])
	case OSExt:
		r = uint64(sext(c.eval(a[0]), a[0].Sort)) & mask(t.Sort)
	case OIte:
		if c.eval(a[0]) == 1 {
			r = c.eval(a[1])
		} else {
			r = c.eval(a[2])
		}
	case OEq:
		r = b2u(c.eval(a[0]) == c.eval(a[1]))
	case OUlt:
		r = b2u(c.eval(a[0]) < c.eval(a[1]))
	case OUle:
		r = b2u(c.eval(a[0]) <= c.eval(a[1]))
	case OSlt:
		r = b2u(sext(c.eval(a[0]), a[0].Sort) < sext(c.eval(a[1]), a[0].Sort))
	case OSle:
		r = b2u(sext(c.eval(a[0]), a[0].Sort) <= sext(c.eval(a[1]), a[0].Sort))
	case OILt:
		r = b2u(int64(c.eval(a[0])) < int64(c.eval(a[1])))
	case OILe:
		r = b2u(int64(c.eval(a[0])) <= int64(c.eval(a[1])))
	case OBAnd:
		r = c.eval(a[0]) & c.eval(a[1])
	case OBOr:
		r = c.eval(a[0]) | c.eval(a[1])
	case OFpIsNaN:
		r = b2u(fpIsNaN(c.eval(a[0])))
	case OFpIsInf:
		r = b2u(fpIsInf(c.eval(a[0])))
	case OFpLt:
		r = b2u(f64(c.eval(a[0])) < f64(c.eval(a[1])))
	case OFpLe:
		r = b2u(f64(c.eval(a[0])) <= f64(c.eval(a[1])))
	case OFpEq:
		r = b2u(f64(c.eval(a[0])) == f64(c.eval(a[1])))
	case OF32to64:
		r = f32to64bits(uint32(c.eval(a[0])))
	case OF64to32:
		r = uint64(f64to32bits(c.eval(a[0])))
	case OConcat:
		r = c.eval(a[0])<<uint(a[1].Sort) | c.eval(a[1])
	default:
		panic(errEvalUnsupported)
	}
	c.cache[t] = r
	return r
}

// ---------------------------------------------------------------------------
// SMT-LIB printing

func bvLit(v uint64, w Sort) string {
	if w%4 == 0 {
		return fmt.Sprintf("#x%0*x", int(w)/4, v&mask(w))
	}
	return fmt.Sprintf("(_ bv%d %d)", v&mask(w), int(w))
}

func intLit(v int64) string {
	if v < 0 {
		return fmt.Sprintf("(- %s)", new(big.Int).Neg(big.NewInt(v)).String())
	}
	return fmt.Sprintf("%d", v)
}

type smtPrinter struct {
	sb      *strings.Builder
	defined map[*Term]bool
	vars    map[*Term]bool
	varList []*Term
}

func newPrinter(sb *strings.Builder) *smtPrinter {
	return &smtPrinter{sb: sb, defined: map[*Term]bool{}, vars: map[*Term]bool{}}
}

func smtName(n string) string { return "|" + n + "|" }

func (p *smtPrinter) ref(t *Term) string {
	switch t.Op {
	case OConst:
		switch t.Sort {
		case SBool:
			if t.Imm == 1 {
				return "true"
			}
			return "false"
		case SInt:
			return intLit(int64(t.Imm))
		}
		return bvLit(t.Imm, t.Sort)
	case OVar:
		return smtName(t.Name)
	}
	return fmt.Sprintf("t%d", t.ID)
}

func fp64(s string) string { return "((_ to_fp 11 53) " + s + ")" }
func fp32(s string) string { return "((_ to_fp 8 24) " + s + ")" }

// define emits declarations/definitions for t and its subterms (post-order).
func (p *smtPrinter) define(t *Term) {
	if t.Op == OConst || p.defined[t] {
		return
	}
	if t.Op == OVar {
		if !p.vars[t] {
			p.vars[t] = true
			p.varList = append(p.varList, t)
			fmt.Fprintf(p.sb, "(declare-const %s %s)\n", smtName(t.Name), t.Sort)
		}
		return
	}
	for _, a := range t.A {
		if a != nil {
			p.define(a)
		}
	}
	p.defined[t] = true
	var body string
	a := t.A
	switch t.Op {
	case ONot:
		if t.Sort == SBool {
			body = "(not " + p.ref(a[0]) + ")"
		} else {
			body = "(bvnot " + p.ref(a[0]) + ")"
		}
	case ONeg:
		body = "(bvneg " + p.ref(a[0]) + ")"
	case OExtract:
		body = fmt.Sprintf("((_ extract %d %d) %s)", int(t.Imm)+int(t.Sort)-1, t.Imm, p.ref(a[0]))
	case OZExt:
		body = fmt.Sprintf("((_ zero_extend %d) %s)", int(t.Sort)-int(a[0].Sort), p.ref(a[0]))
	case OSExt:
		body = fmt.Sprintf("((_ sign_extend %d) %s)", int(t.Sort)-int(a[0].Sort), p.ref(a[0]))
	case OIte:
		body = "(ite " + p.ref(a[0]) + " " + p.ref(a[1]) + " " + p.ref(a[2]) + ")"
	case OFpIsNaN:
		body = "(fp.isNaN " + fp64(p.ref(a[0])) + ")"
	case OFpIsInf:
		body = "(fp.isInfinite " + fp64(p.ref(a[0])) + ")"
	case OFpLt:
		body = "(fp.lt " + fp64(p.ref(a[0])) + " " + fp64(p.ref(a[1])) + ")"
	case OFpLe:
		body = "(fp.leq " + fp64(p.ref(a[0])) + " " + fp64(p.ref(a[1])) + ")"
	case OFpEq:
		body = "(fp.eq " + fp64(p.ref(a[0])) + " " + fp64(p.ref(a[1])) + ")"
	case OF32to64, OF64to32:
		// handled as an uninterpreted result constrained by an FP equation
		// (NaN payloads are not pinned): declare a fresh constant.
		name := fmt.Sprintf("t%d", t.ID)
		fmt.Fprintf(p.sb, "(declare-const %s %s)\n", name, t.Sort)
		if t.Op == OF32to64 {
			fmt.Fprintf(p.sb, "(assert (= %s ((_ to_fp 11 53) RNE %s)))\n", fp64(name), fp32(p.ref(a[0])))
		} else {
			fmt.Fprintf(p.sb, "(assert (= %s ((_ to_fp 8 24) RNE %s)))\n", fp32(name), fp64(p.ref(a[0])))
		}
		return
	default:
		name, ok := opNames[t.Op]
		if !ok {
			panic(fmt.Sprintf("print: op %d", t.Op))
		}
		if t.Sort == SInt || (a[0] != nil && a[0].Sort == SInt) {
			switch t.Op {
			case OAdd:
				name = "+"
			case OSub:
				name = "-"
			case OMul:
				name = "*"
			}
		}
		body = "(" + name + " " + p.ref(a[0]) + " " + p.ref(a[1]) + ")"
	}
	fmt.Fprintf(p.sb, "(define-fun t%d () %s %s)\n", t.ID, t.Sort, body)
}

func (t *Term) String() string {
	switch t.Op {
	case OConst, OVar:
		return newPrinter(nil).ref(t)
	}
	var args []string
	for _, a := range t.A {
		if a != nil {
			args = append(args, a.String())
		}
	}
	n := opNames[t.Op]
	if n == "" {
		n = fmt.Sprintf("op%d", t.Op)
		switch t.Op {
		case ONot:
			n = "not"
		case OExtract:
			n = fmt.Sprintf("extract[%d+%d]", t.Imm, t.Sort)
		case OZExt:
			n = "zext"
		case OSExt:
			n = "sext"
		}
	}
	return "(" + n + " " + strings.Join(args, " ") + ")"
}
