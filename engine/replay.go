package main

// Native replay: solver models and decision vectors are turned into ordinary `go test`
// runs of the same harness functions against the real build of /repo (harness files and a
// replay driver are injected with -overlay; nothing is written into /repo).

import (
	"bufio"
	"bytes"
	"encoding/json"
	"fmt"
	"os"
	"os/exec"
	"path/filepath"
	"sort"
	"strings"
	"time"
)

type replayCase struct {
	Harness string      `json:"harness"`
	Inputs  []InputRec  `json:"inputs"`
	Choices []ChoiceRec `json:"choices"`
	Tier    int         `json:"tier"`
	Known   []string    `json:"known_open"`
	// expectation (engine side)
	Outcome  string        `json:"expect_outcome"`
	Label    string        `json:"expect_label"`
	Reached  []string      `json:"expect_reached"`
	Observed []ObservedRec `json:"expect_observed"`
}

type nativeResult struct {
	Outcome  string
	Label    string
	Reached  []string
	Observed []ObservedRec
	Raw      string
}

func pkgOfHarness(eng *Engine, name string) string {
	if eng.exprPkg != nil && eng.exprPkg.Func(name) != nil {
		return "./expr"
	}
	return "."
}

// runNative executes the cases natively and returns one result per case.
func runNative(eng *Engine, verif, repo string, pkg string, cases []replayCase) ([]nativeResult, string, error) {
	work := filepath.Join(verif, ".work", fmt.Sprintf("replay-%d-%d", os.Getpid(), time.Now().UnixNano()))
	if err := os.MkdirAll(work, 0o755); err != nil {
		return nil, "", err
	}
	defer os.RemoveAll(work)
	sub := ""
	pkgName := "log"
	if pkg == "./expr" {
		sub = "expr"
		pkgName = "expr"
	}
	ov := map[string]string{}
	var harnessNames []string
	files, _ := filepath.Glob(filepath.Join(verif, "harness", sub, "*.go"))
	for _, f := range files {
		ov[filepath.Join(repo, sub, "zz_verif_"+filepath.Base(f))] = f
	}
	if sub == "expr" {
		pf, _ := filepath.Glob(filepath.Join(verif, "harness", "*.go"))
		for _, f := range pf {
			if strings.HasPrefix(filepath.Base(f), "prelude") || filepath.Base(f) == "oracles.go" {
				b, _ := os.ReadFile(f)
				cp := filepath.Join(work, "expr_"+filepath.Base(f))
				os.WriteFile(cp, []byte(strings.Replace(string(b), "package log", "package expr", 1)), 0o644)
				ov[filepath.Join(repo, "expr", "zz_verif_"+filepath.Base(f))] = cp
			}
		}
	}
	var pk = eng.logPkg
	if sub == "expr" {
		pk = eng.exprPkg
	}
	for name := range pk.Members {
		if strings.HasPrefix(name, "H_") {
			harnessNames = append(harnessNames, name)
		}
	}
	sort.Strings(harnessNames)
	// driver
	tmpl, err := os.ReadFile(filepath.Join(verif, "harness", "replay_driver.go.txt"))
	if err != nil {
		return nil, "", err
	}
	var reg strings.Builder
	for _, n := range harnessNames {
		fmt.Fprintf(&reg, "\t%q: %s,\n", n, n)
	}
	drv := strings.Replace(string(tmpl), "package log", "package "+pkgName, 1)
	drv = strings.Replace(drv, "//REGISTRY//", reg.String(), 1)
	drvPath := filepath.Join(work, "driver_test.go")
	os.WriteFile(drvPath, []byte(drv), 0o644)
	ov[filepath.Join(repo, sub, "zz_verif_driver_test.go")] = drvPath
	ovDoc, _ := json.Marshal(map[string]interface{}{"Replace": ov})
	ovPath := filepath.Join(work, "overlay.json")
	os.WriteFile(ovPath, ovDoc, 0o644)
	casesPath := filepath.Join(work, "cases.json")
	cb, _ := json.Marshal(cases)
	os.WriteFile(casesPath, cb, 0o644)
	cmd := exec.Command("go", "test", "-v", "-vet=off", "-count=1", "-run", "^TestVerifReplay$", "-timeout", "300s", "-overlay", ovPath, pkg)
	cmd.Dir = repo
	cmd.Env = append(os.Environ(), "GOFLAGS=-mod=mod", "GOPROXY=off", "VERIF_REPLAY="+casesPath)
	var out bytes.Buffer
	cmd.Stdout = &out
	cmd.Stderr = &out
	runErr := cmd.Run()
	os.WriteFile(filepath.Join(verif, ".work", "last_native.log"), out.Bytes(), 0o644)
	res := make([]nativeResult, len(cases))
	seen := 0
	sc := bufio.NewScanner(bytes.NewReader(out.Bytes()))
	sc.Buffer(make([]byte, 1<<20), 1<<24)
	for sc.Scan() {
		line := sc.Text()
		if !strings.HasPrefix(line, "VREPLAY ") {
			continue
		}
		var r struct {
			I        int           `json:"i"`
			Outcome  string        `json:"outcome"`
			Label    string        `json:"label"`
			Reached  []string      `json:"reached"`
			Observed []ObservedRec `json:"observed"`
		}
		if json.Unmarshal([]byte(line[8:]), &r) != nil || r.I < 0 || r.I >= len(res) {
			continue
		}
		res[r.I] = nativeResult{Outcome: r.Outcome, Label: r.Label, Reached: r.Reached, Observed: r.Observed, Raw: line}
		seen++
	}
	if seen != len(cases) {
		tail := out.String()
		if len(tail) > 3000 {
			tail = tail[len(tail)-3000:]
		}
		return res, tail, fmt.Errorf("native run produced %d of %d results (%v)", seen, len(cases), runErr)
	}
	return res, out.String(), nil
}

func openKnown(eng *Engine) []string {
	var out []string
	for id, k := range eng.known {
		if k.Status == "open" {
			out = append(out, id)
		}
	}
	sort.Strings(out)
	return out
}

// nativeReplay replays one violation; ok = the same failure was observed natively.
func nativeReplay(verif, repo, prop string, v *Violation, path string) (bool, string, error) {
	eng := currentEngine
	if !eng.nativeReplayable(v.Harness) || v.NoNative {
		return false, "", fmt.Errorf("harness uses engine-only environment models (schedule/FS/clock); deterministic engine replay only")
	}
	rc := replayCase{Harness: v.Harness, Inputs: v.Inputs, Choices: v.Choices, Tier: eng.tier, Known: openKnown(eng), Outcome: v.Kind, Label: v.Label}
	// a counterexample that depends on a map iteration order cannot be forced natively (Go
	// randomises it): repeat the native run, any reproduction confirms it
	n := 1
	for _, ch := range v.Choices {
		if strings.HasPrefix(ch.Name, "maporder") && ch.Val != 0 {
			n = 60
		}
	}
	cases := make([]replayCase, n)
	for i := range cases {
		cases[i] = rc
	}
	res, out, err := runNative(eng, verif, repo, pkgOfHarness(eng, v.Harness), cases)
	if err != nil {
		return false, out, err
	}
	last := ""
	for _, r := range res {
		last = r.Raw
		switch v.Kind {
		case "ASSERT":
			// the engine keeps going after a failed assertion, the native run stops at the first one:
			// any natively failing assertion on this input confirms a violation on it
			if r.Outcome == "ASSERT" {
				return true, r.Raw, nil
			}
		case "PANIC":
			if r.Outcome == "PANIC" {
				return true, r.Raw, nil
			}
		case "BLOCKED", "DIVERGE":
			if r.Outcome == "TIMEOUT" {
				return true, r.Raw, nil
			}
		}
	}
	// choices the Go runtime takes by itself (which pooled object sync.Pool hands out, which goroutine
	// runs next) cannot be forced natively: without a native reproduction such a path stays an
	// engine-replayed counterexample, it is not evidence of an engine/stub mismatch
	for _, ch := range v.Choices {
		if ch.Name == "pool" || ch.Name == "sched" {
			return false, last, fmt.Errorf("the path depends on %s choices of the Go runtime that cannot be forced natively; deterministic engine replay only", ch.Name)
		}
	}
	return false, last, nil
}

var currentEngine *Engine

func (e *Engine) nativeReplayable(harness string) bool {
	return !e.engineOnly[harness]
}

// crossCheck validates the translator: sampled passing paths are replayed natively and the
// natively observed outcome, witness labels and observations are compared with the engine's.
func crossCheck(eng *Engine, verif, repo, prop string, results []*RunResult, seed int64) (int, error) {
	currentEngine = eng
	byPkg := map[string][]replayCase{}
	limit := 12
	if eng.tier == 1 {
		limit = 48
	}
	for _, r := range results {
		if !eng.nativeReplayable(r.Harness) {
			continue
		}
		n := 0
		// deterministic selection influenced by the seed
		start := 0
		if len(r.Samples) > 0 {
			start = int(seed % int64(len(r.Samples)))
			if start < 0 {
				start = -start
			}
		}
		for k := 0; k < len(r.Samples) && n < limit; k++ {
			sm := r.Samples[(start+k)%len(r.Samples)]
			if sm.Outcome != "OK" {
				continue
			}
			rc := replayCase{Harness: r.Harness, Inputs: sm.Inputs, Choices: sm.Choices, Tier: eng.tier, Known: openKnown(eng),
				Outcome: "OK", Reached: sm.Reached, Observed: sm.Observed}
			p := pkgOfHarness(eng, r.Harness)
			byPkg[p] = append(byPkg[p], rc)
			n++
		}
	}
	validated := 0
	for pkg, cases := range byPkg {
		res, out, err := runNative(eng, verif, repo, pkg, cases)
		if err != nil {
			return validated, fmt.Errorf("%v\n%s", err, out)
		}
		for i, c := range cases {
			r := res[i]
			// a passing engine path may legitimately hit a known-finding violation natively only if the engine saw it too;
			// sampled paths with outcome OK recorded no violation... but assertion failures do not end a path in the engine.
			if r.Outcome != "OK" && r.Outcome != "ASSERT" {
				return validated, fmt.Errorf("translator mismatch in %s: engine outcome OK, native %s %s (inputs %s choices %v)", c.Harness, r.Outcome, r.Label, jsonStr(c.Inputs), c.Choices)
			}
			if r.Outcome == "OK" {
				if strings.Join(r.Reached, ",") != strings.Join(c.Reached, ",") {
					return validated, fmt.Errorf("translator mismatch in %s: reached labels engine=%v native=%v (inputs %s choices %v)", c.Harness, c.Reached, r.Reached, jsonStr(c.Inputs), c.Choices)
				}
				if len(r.Observed) != len(c.Observed) {
					return validated, fmt.Errorf("translator mismatch in %s: %d observations vs %d natively (inputs %s)", c.Harness, len(c.Observed), len(r.Observed), jsonStr(c.Inputs))
				}
				for j := range r.Observed {
					if r.Observed[j] != c.Observed[j] {
						return validated, fmt.Errorf("translator mismatch in %s: observation %s engine=%s native=%s (inputs %s choices %v)", c.Harness, c.Observed[j].Label, c.Observed[j].Val, r.Observed[j].Val, jsonStr(c.Inputs), c.Choices)
					}
				}
			}
			validated++
		}
	}
	return validated, nil
}
