#!/usr/bin/env python3
"""Prints the markdown table of DESIGN.md section 10 from /verif/seeded/*/meta.json."""
import json,glob,os,re
rows=[]
for d in sorted(glob.glob('/verif/seeded/*')):
    m=json.load(open(d+'/meta.json'))
    note=open(d+'/note.txt').read().strip().split('\n')
    first=' '.join(note[:3])
    first=re.sub(r'\s+',' ',first)[:170]
    c=m.get('checks',{})
    q=c.get('quick',{})
    viol=q.get('first_violation','')
    mm=re.search(r'violation: (\w+) (\S+)',viol)
    what=(mm.group(1)+' '+mm.group(2)) if mm else ''
    nat='natively reproduced' if 'reproduced natively' in viol else ('engine replay' if viol else '')
    rows.append('| %s | %s | %s | %s %s |'%(os.path.basename(d),first.replace('|','/'),q.get('caught','?'),what,('('+nat+')') if nat else ''))
print('| seeded change | what it is (from the author\'s note) | caught by the quick check of its property | first violation reported |')
print('|---|---|---|---|')
print('\n'.join(rows))
