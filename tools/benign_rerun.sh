#!/bin/bash
# benign_rerun.sh [streams] : re-evaluates every stored behaviour-preserving change (/verif/seeded-benign/*)
# against the current checks, each in its own scratch worktree of /repo (removed afterwards); nothing
# is applied to /repo itself. BENIGN_FILTER=<regex> restricts the changes by name. Prints one line per change; "alarm=1" means a check did not exit 0.
streams="${1:-3}"
root=$(mktemp -d /tmp/benign-rerun.XXXXXX)
cd /verif
names=$(ls seeded-benign | grep -E "${BENIGN_FILTER:-.}")
i=0
for n in $names; do lists[$((i % streams))]="${lists[$((i % streams))]} $n"; i=$((i+1)); done
for s in $(seq 0 $((streams-1))); do
  (
    wt=$root/wt$s
    git -C /repo worktree add -q --detach $wt HEAD
    for n in ${lists[$s]}; do
      cp seeded-benign/$n/patch.diff $root/$n.patch; cp seeded-benign/$n/note.txt $root/$n.note
      BENIGN_WT=$wt tools/benign_eval.sh $n $root/$n.patch $root/$n.note
    done
    git -C /repo worktree remove --force $wt
  ) > $root/stream$s.log 2>&1 &
done
wait
cat $root/stream*.log | sort
git -C /repo worktree prune
rm -rf $root
