#!/usr/bin/env python3
"""Regenerates /verif/MANIFEST.json from the table below (kept valid at all times)."""
import json, sys

LEVEL_NOTE = ("Trusted: go/packages+go/ssa v0.29.0 (SSA construction), the symgo interpreter and its intrinsics/stubs "
              "(listed per run in the evidence; cross-checked natively on sampled paths), z3 4.8.12, the reference oracles in "
              "/verif/harness. Bounds are stated in the evidence ('bounds'); nothing is claimed outside them. Exit 2 = inconclusive.")

# id -> (claimed text, technique, design_ref)
CHECKS = {
 "C09": ("Bounded symbolic execution of the real WriteLogString/tryAddRuneSelf/tryAddRuneError (SSA, with the real bytes.Buffer and utf8.DecodeRuneInString) on every byte string up to the stated length; output compared by the solver with an independent RFC 8259 / Unicode D92 decoder. Every path condition class is decided by z3; counterexamples are replayed natively.",
         "SMT-based bounded symbolic execution of Go SSA (z3), reference-decoder oracle, native replay", "DESIGN.md §C09"),
 "C18": ("Bounded symbolic execution of isValidTag (with the real strings.Split/TrimPrefix, slices.Contains), RegisterTag, BuildTag helpers and GetAllTags against a reference recogniser written from the statement: all byte strings up to the stated length, structured strings around the 36-byte limit, registry idempotence with arbitrary names.",
         "SMT-based bounded symbolic execution of Go SSA (z3), reference-recogniser oracle, native replay", "DESIGN.md §C18"),
}

CHECKS.update({
 "C01": ("Bounded symbolic execution of the real level gate: LevelRange.Enable, sortByLevel (with the stable insertion-sort model of sort.Slice), SyncLogger.Append, AppenderRef.Append, the 15 entry points and record, with arbitrary int32 level codes for the logger range, 1..4 appender references (explicit or open-ended) and the event; oracle written from the statement (chained ranges).",
         "SMT-based bounded symbolic execution of Go SSA (z3), statement-derived oracle, native replay", "DESIGN.md §C01"),
 "C07": ("Bounded symbolic execution of the real JSON layout (field constructors, Any dispatch, Field.Encode, JSONEncoder, WriteLogString, JSONLayout.ToBytes) on generated events; the output is parsed by an independent RFC 8259 parser executed in the same engine and compared structurally with the logged data; numeric width fidelity of every Int/Uint/Float instantiation decided over full bit-vector ranges.",
         "SMT-based bounded symbolic execution of Go SSA (z3), independent JSON parser oracle, native replay", "DESIGN.md §C07"),
 "C08": ("Bounded symbolic execution of GetFileLine for an arbitrary 64-bit width and arbitrary file names, and of TextLayout.ToBytes differentially against the tokens of JSONLayout.ToBytes for the same generated event.",
         "SMT-based bounded symbolic execution of Go SSA (z3), differential oracle (text vs JSON tokens), native replay", "DESIGN.md §C08"),
 "C10": ("Bounded symbolic execution of the entry points and record with counting hooks and lazy generators: arbitrary int32 logger range and event level, all hook set/unset patterns; sync logger and built-in console logger.",
         "SMT-based bounded symbolic execution of Go SSA (z3), counting-hook oracle, native replay", "DESIGN.md §C10"),
})

SYM = "SMT-based bounded symbolic execution of Go SSA (z3)"
CHECKS.update({
 "C02": ("Bounded symbolic execution of the real Refresh end to end (toStorage, NewPlugin/inject over a reflect shim, tag-list parsing, validation, start-up, findLoggerForTag, rebinding) on generated tag/pattern configurations; which logger serves each tag is observed through recording appender plugins and compared with a reference longest-prefix matcher and validator.",
         SYM + ", reference-matcher oracle, native replay", "DESIGN.md §C02"),
 "C03": ("Bounded model checking of the real layouts/appenders/SyncLogger under a cooperative scheduler: two goroutines log through one sync logger to a slow sink, sync.Pool.Get may return any pooled object, every schedule within the pre-emption bound is explored; received lines are compared with the lines each event yields alone.",
         SYM + " with an explicit scheduler over goroutine interleavings and pool choices, native replay with GOMAXPROCS(1)", "DESIGN.md §C03"),
 "C04": ("Bounded model checking of the real AsyncLogger (Start worker, Append, Write, onBufferFull, Stop) under a cooperative scheduler: all interleavings within the pre-emption bound of 1..2 producers with the worker, 3 policies, capacity 1..2, arbitrary int32 levels; exact conservation oracle.",
         SYM + " with an explicit scheduler over goroutine interleavings", "DESIGN.md §C04"),
 "C05": ("Bounded model checking of Stop for the async logger at every buffer occupancy/worker state, and of Start/log/Stop for every logger kind by direct construction (incl. rolling-file logger sync/async x policies x separate) against the file-system model: Stop returns (no BLOCKED/DIVERGE), everything accepted is in the target, no descriptor stays open; Destroy after a real Refresh; at most two descriptors on a rolling appender with two concurrent writers.",
         SYM + " with an explicit scheduler and a file-system model, native replay for the logger-kind harness", "DESIGN.md §C05"),
 "C12": ("Bounded symbolic execution of raw Write through the named handle for sync (1..3 references with arbitrary ranges, arbitrary payload bytes) and async loggers (caller overwrites its buffer after Write returns).",
         SYM + ", native replay for the sync harness", "DESIGN.md §C12"),
 "C13": ("Bounded symbolic execution of RollingFileAppender.Start/Write/rotate/createFile/Stop against a file-system model under a symbolic clock (every reading an arbitrary non-decreasing instant, LIA-encoded): each write whole, exactly once, in the file created in its interval; names = FileName.<timestamp of the creating reading>; restart appends.",
         SYM + ", symbolic clock (LIA) and file-system model", "DESIGN.md §C13"),
 "C14": ("Bounded symbolic execution of clearExpiredFiles over a symbolic directory (arbitrary name bytes, ages, max age, clock reading) in the file-system model; removed iff regular file named FileName.<14 digits> older than max age; scan histories (missing/empty directory first, files expiring or rewritten between scans), file names with pattern characters. Counterexamples are replayed on a real temporary directory.",
         SYM + ", file-system model, native replay on a real directory", "DESIGN.md §C14"),
 "C19": ("Bounded symbolic execution of the rolling appender with a fault bit on every OpenFile and Write (path-split) under a symbolic clock, plus file/console appenders with failed Start, closed file or failing stream: never panics or blocks, keeps the current file, retries creation at the next boundary only.",
         SYM + ", fault enumeration via path-split fault bits, symbolic clock and file-system model", "DESIGN.md §C19"),
 "C20": ("Symbolic execution of sync logger -> file/rolling/console appender for both layouts with the target inspected in the file-system model immediately after every acknowledged call (every crash point between calls, every level mix, 3 concurrent callers, open faults, rotation with retention): the complete line is already in the target.",
         SYM + ", file-system model observed at every return point", "DESIGN.md §C20"),
})

CHECKS.update({
 "C06": ("Bounded model checking of the real AsyncLogger against an executable FIFO queue model with a single-stepped worker (gated appender): every operation sequence within the bound over {append event, raw write, worker takes one}, 3 policies, capacity 1..2; per-producer delivery order under all explored schedules of 1..2 producers; DiscardOldest keeps arriving items under contention; small and 70 000-byte raw writes; the async rolling-file logger keeps policy and file order.",
         SYM + " with an explicit scheduler; executable queue-model oracle", "DESIGN.md §C06"),
 "C11": ("Symbolic execution of the 15 entry points, record and FastCaller over the interpreter's own call stack (runtime.Caller/Callers/CallersFrames resolve frames of the interpreted stack), all call shapes and both lookup modes, Record with an arbitrary skip; sampled paths and every counterexample are re-run natively against the real runtime.",
         SYM + " over a modelled call stack, native replay against the real runtime", "DESIGN.md §C11"),
 "C15": ("Bounded symbolic execution of toCamelKey on generated key spellings, and of the real Refresh/NewPlugin/inject/injectAttribute/injectElement (through a reflect shim over interpreter values) for every registered logger x appender type x 12 configuration variants and for attribute resolution (configured / default / ${key} / key spellings / inline 'name!' form).",
         SYM + " incl. a reflect shim, native replay", "DESIGN.md §C15"),
 "C16": ("Bounded model checking of the lifecycle: every operation sequence within the bound over Refresh (valid sync/async, invalid early/late), Destroy, logging via tag at an arbitrary level, writing via handle, registration, on the real package globals with the real Refresh/Destroy, against a reference state machine; every pair of valid configurations (sync/async x three routings) around a Destroy.",
         SYM + " over operation histories, reference state machine, native replay", "DESIGN.md §C16"),
 "C17": ("Bounded symbolic execution of the real expr.Parse INCLUDING the ANTLR-generated lexer/parser and the ANTLR runtime (executed from SSA): totality on every string up to the bound over a 15-symbol alphabet; exact flattening of grammar-generated expressions against a reference flattener; every string literal shape the lexer admits.",
         SYM + " of the real ANTLR recogniser, reference flattener oracle, native replay", "DESIGN.md §C17"),
})

NA_DEFAULT = "check not built yet in this session (engine under construction); see DESIGN.md"
NA = {}

def main():
    props = [json.loads(l) for l in open('/verif/properties.jsonl')]
    checks = []
    for p in props:
        pid = p["id"]
        if pid in CHECKS:
            text, tech, ref = CHECKS[pid]
            checks.append({
                "property_id": pid,
                "quick_cmd": "./vcheck %s --tier quick" % pid,
                "thorough_cmd": "./vcheck %s --tier thorough" % pid,
                "evidence_file": "/verif/evidence/%s.json" % pid,
                "replay_cmd_template": "./vcheck --replay {path}",
                "engine": "symgo",
                "level_claimed": {"category": "model_checking", "text": text, "design_ref": ref},
                "level_note": LEVEL_NOTE,
                "technique": tech,
            })
    na = [{"property_id": p["id"], "reason": NA.get(p["id"], NA_DEFAULT)} for p in props if p["id"] not in CHECKS]
    m = {
        "version": 1,
        "setup_cmd": "cd /verif/engine && GOFLAGS=-mod=mod GOPROXY=off go build -o /verif/bin/symgo . && mkdir -p /verif/.work /verif/evidence /verif/replays",
        "hooks": {"guard": "verif",
                  "enable": "no hooks: harnesses are injected as in-package overlay files (go/packages Overlay for the engine, go test -overlay for native replay); nothing is written into /repo",
                  "baseline_off_cmd": "cd /repo && GOFLAGS=-mod=mod GOPROXY=off go test -vet=off -count=1 ./...",
                  "source_commits": [], "add_only": True},
        "engines": [{"name": "symgo", "path": "/verif/engine", "serves_properties": sorted(CHECKS),
                     "kind_free_text": "symbolic executor for Go SSA (go/ssa v0.29.0): path-exploring interpreter with copy-on-write state forking, SMT-LIB2 terms (bit-vectors, LIA for clocks), one z3 -in per worker, cooperative scheduler for goroutines, FS/clock models, native replay of solver models via go test -overlay"}],
        "checks": checks,
        "not_applicable": na,
        "notes": "See DESIGN.md. A check exits 2 when inconclusive (solver unknown, time-out, unwinding bound, unsupported construct); that is never reported as success. Known findings: /verif/known_findings.json.",
    }
    json.dump(m, open('/verif/MANIFEST.json', 'w'), indent=1)
    print("checks:", [c["property_id"] for c in checks])

main()
