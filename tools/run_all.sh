#!/bin/sh
# run every registered check (tier from $1, default quick) and print a one-line summary each
tier="${1:-quick}"
cd /verif
for p in $(python3 -c "import json;print(' '.join(c['property_id'] for c in json.load(open('MANIFEST.json'))['checks']))"); do
  s=$(date +%s)
  out=$(timeout 3600 ./vcheck $p --tier $tier 2>&1)
  rc=$?
  e=$(date +%s)
  echo "$p rc=$rc $((e-s))s $(echo "$out" | grep -c VIOLATION) violations $(echo "$out" | grep -c INCONCLUSIVE) inconclusive"
  [ $rc -ne 0 ] && echo "$out" | grep -E "VIOLATION|INCONCLUSIVE|violation" | head -5
done
