#!/bin/bash
# seed_eval.sh <property-id> <i> : confirm a sub-agent's seeded change in its scratch worktree,
# store it under /verif/seeded/<id>-<i>/, run the property's check against it in /repo, revert.
id="$1"; i="$2"; tier="${3:-quick}"
root="${SEEDROOT:-/tmp/seed}"; tag="${SEEDTAG:-}"
wt=$root/$id; out=$root/out_$id
export GOFLAGS=-mod=mod GOPROXY=off
pkgdir=.
grep -q "^package expr" $out/demo${i}_test.go && pkgdir=expr
tname=$(grep -o "func Test[A-Za-z0-9_]*" $out/demo${i}_test.go | head -1 | sed 's/func //')
if [ -z "$SKIP_CONFIRM" ]; then
cd $wt || exit 9
git checkout -q -- . ; git clean -fdq
# 1. clean tree: demo passes
cp $out/demo${i}_test.go $pkgdir/demo${i}_test.go
go test -vet=off -count=1 -run "^${tname}\$" ./$pkgdir >$root/$id.clean.log 2>&1; clean_rc=$?
# 2. with the change: compiles, suite (minus TestLog) passes, demo fails
git apply $out/patch${i}.diff || { echo "$id-$i: patch does not apply"; rm -f $pkgdir/demo${i}_test.go; exit 8; }
go test -vet=off -count=1 -run "^${tname}\$" ./$pkgdir >$root/$id.mut.log 2>&1; mut_rc=$?
rm -f $pkgdir/demo${i}_test.go
go test -vet=off -count=1 ./... >$root/$id.suite.log 2>&1
fails=$(grep -E "^--- FAIL" $root/$id.suite.log | grep -v "TestLog " | wc -l)
build_ok=$(grep -c "build failed\|cannot\|undefined" $root/$id.suite.log)
git checkout -q -- . ; git clean -fdq
echo "$id-$i: demo clean rc=$clean_rc (want 0), demo with change rc=$mut_rc (want !=0), other suite failures=$fails (want 0)"
if [ $clean_rc -ne 0 ] || [ $mut_rc -eq 0 ] || [ $fails -ne 0 ]; then echo "$id-$i: NOT CONFIRMED"; exit 7; fi
# 3. store
d=/verif/seeded/$id-$tag$i; mkdir -p $d
cp $out/patch${i}.diff $d/patch.diff; cp $out/demo${i}_test.go $d/demo_test.go; cp $out/note${i}.txt $d/note.txt
[ -n "$CONFIRM_ONLY" ] && exit 0
else
d=/verif/seeded/$id-$tag$i; [ -f $d/patch.diff ] || { echo "$id-$i: not stored (not confirmed)"; exit 7; }
fi
# 4. run the check against it in /repo
cd /repo && git apply $d/patch.diff || { echo "$id-$i: patch does not apply to /repo"; exit 6; }
cd /verif && timeout 3000 ./vcheck $id --tier $tier -timeout 1200s > $d/check.$tier.log 2>&1; rc=$?
cd /repo && (git apply -R $d/patch.diff 2>/dev/null || git checkout -q -- .); git clean -fdq -e logs
caught=no; [ $rc -eq 1 ] && caught=yes; [ $rc -eq 2 ] && caught=inconclusive
viol=$(grep -m1 "violation:" $d/check.$tier.log | sed 's/^ *//' | cut -c1-160)
python3 - "$id" "$tag$i" "$tier" "$rc" "$caught" "$viol" <<'PY'
import json,sys,os
pid,i,tier,rc,caught,viol=sys.argv[1:7]
d='/verif/seeded/%s-%s'%(pid,i)
note=open(d+'/note.txt').read()
meta={"property":pid,"change":i,"written_by":"fresh sub-agent given only the property text","needs_to_manifest":note[:1200],
      "confirmed":"applied in a scratch worktree of /repo (%s): existing suite passes except the always-failing TestLog; demo test fails with the change and passes without it (tools/seed_eval.sh)"%pid,
      "check":{"tier":tier,"exit":int(rc),"caught":caught,"first_violation":viol}}
old={}
if os.path.exists(d+'/meta.json'):
    old=json.load(open(d+'/meta.json'))
    meta["checks"]=old.get("checks",{})
else:
    meta["checks"]={}
meta["checks"][tier]={"exit":int(rc),"caught":caught,"first_violation":viol}
json.dump(meta,open(d+'/meta.json','w'),indent=1)
PY
echo "$id-$i: check $tier exit=$rc caught=$caught :: $viol"
