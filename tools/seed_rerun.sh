#!/bin/bash
# seed_rerun.sh [tier] : run every stored seeded change against the check of its property in /repo
# (git apply, ./vcheck, revert) and record the outcome in meta.json (checks.<tier>).
tier="${1:-quick}"
cd /verif
for d in seeded/*/; do
  d=${d%/}; name=$(basename $d); id=${name%%-*}
  cd /repo && git apply /verif/$d/patch.diff 2>/dev/null || { echo "$name: patch does not apply"; cd /verif; continue; }
  cd /verif && timeout 3000 ./vcheck $id --tier $tier -timeout 1200s > $d/check.$tier.log 2>&1; rc=$?
  cd /repo && (git apply -R /verif/$d/patch.diff 2>/dev/null || git checkout -q -- .); git clean -fdq -e logs
  cd /verif
  caught=no; [ $rc -eq 1 ] && caught=yes; [ $rc -eq 2 ] && caught=inconclusive
  viol=$(grep -m1 "violation:" $d/check.$tier.log | sed 's/^ *//' | cut -c1-160)
  python3 - "$d" "$tier" "$rc" "$caught" "$viol" <<'PY'
import json,sys
d,tier,rc,caught,viol=sys.argv[1:6]
m=json.load(open(d+'/meta.json'))
m.setdefault('checks',{})[tier]={"exit":int(rc),"caught":caught,"first_violation":viol}
m['check']={"tier":tier,"exit":int(rc),"caught":caught,"first_violation":viol}
json.dump(m,open(d+'/meta.json','w'),indent=1)
PY
  echo "$name: $tier exit=$rc caught=$caught"
done
