#!/bin/bash
# benign_eval.sh <name> <patch> <note> : a behaviour-preserving change must NOT raise an alarm.
# Applies the patch to /repo, runs the repository's suite and the quick checks of every property whose
# anchored files the patch touches (plus the property it was written for), reverts, records the outcome.
name="$1"; patch="$2"; note="$3"; own="${name%%-*}"
export GOFLAGS=-mod=mod GOPROXY=off
d=/verif/seeded-benign/$name; mkdir -p $d
cp "$patch" $d/patch.diff; cp "$note" $d/note.txt
files=$(grep '^+++ b/' $d/patch.diff | sed 's#^+++ b/##' | sort -u | tr '\n' ' ')
props=$(python3 - "$own" $files <<'PY'
import json,sys
own=sys.argv[1]; files=set(sys.argv[2:])
out=[own]
for l in open('/verif/properties.jsonl'):
    p=json.loads(l)
    if files & set(p['anchors'].get('files',[])) and p['id'] not in out:
        out.append(p['id'])
print(' '.join(out))
PY
)
wt="${BENIGN_WT:-/repo}"
cd $wt && git apply $d/patch.diff || { echo "$name: patch does not apply"; exit 8; }
go test -vet=off -count=1 ./... > $d/suite.log 2>&1
fails=$(grep -E "^--- FAIL" $d/suite.log | grep -v "TestLog " | wc -l)
res=""; bad=0
for p in $props; do
  cd /verif && timeout 1500 bin/symgo -repo $wt -tier quick -timeout 600s $p > $d/check.$p.log 2>&1; rc=$?
  res="$res $p=$rc"; [ $rc -ne 0 ] && bad=1
done
cd $wt && (git apply -R $d/patch.diff 2>/dev/null || git checkout -q -- .); git clean -fdq -e logs
python3 - "$d" "$name" "$fails" "$bad" "$res" <<'PY'
import json,sys
d,name,fails,bad,res=sys.argv[1:6]
json.dump({"change":name,"kind":"behaviour-preserving change written by a fresh sub-agent given only the property text",
           "suite_failures_other_than_TestLog":int(fails),"checks_run":res.split(),"alarm":bool(int(bad))},open(d+'/meta.json','w'),indent=1)
PY
echo "$name: suite_fails=$fails checks:$res alarm=$bad"
